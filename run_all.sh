#!/bin/sh
# run_all.sh [tier]: runs every check on /repo's current tree (regenerates all evidence files); one compact line per check
cd "$(dirname "$0")"
[ -x bin/vcheck ] || ./setup.sh >/dev/null
git -C /repo diff --quiet || { echo "WARNING: /repo has uncommitted changes"; }
rc=0
for p in $(./bin/vcheck list); do
  out=$(./check.sh $p ${1:-quick} 2>&1); r=$?
  echo "$p rc=$r $(echo "$out" | tail -1 | grep -o 'cases=[0-9]*\|violations=[0-9]*\|exhaustive=[a-z]*\|wall=[0-9.]*s' | tr '\n' ' ')"
  [ $r -ne 0 ] && { echo "$out" | grep -E "VIOLATION|HARNESS|NONDET|key=" | head -6; rc=1; }
done
exit $rc
