#!/bin/sh
# run_all.sh [tier]: runs every check on /repo's current tree (regenerates all evidence files); prints one line per check
cd "$(dirname "$0")"
[ -x bin/vcheck ] || ./setup.sh >/dev/null
git -C /repo diff --quiet || { echo "WARNING: /repo has uncommitted changes"; }
rc=0
for p in $(./bin/vcheck list); do
  out=$(./check.sh $p ${1:-quick} 2>&1); r=$?
  echo "$out" | tail -1 | cut -c1-220
  [ $r -ne 0 ] && { echo "  ^^ rc=$r"; echo "$out" | grep -E "VIOLATION|HARNESS|NONDET" | head -5; rc=1; }
done
exit $rc
