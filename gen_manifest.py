#!/usr/bin/env python3
# Regenerates MANIFEST.json from the table below (claimed checks) and properties.jsonl (ids).
import json
props=[json.loads(l)['id'] for l in open('/verif/properties.jsonl')]
T="bounded exhaustive enumeration of executions of the real code (explicit-state, no sampling) compared case by case with a math/big reference model"
trust="Trusted: Go toolchain (compiler, SHA-512, math/big); reference model /verif/ref self-tested at setup against RFC 8032/7748 vectors, crypto/ed25519 and crypto/ecdh. Inputs outside the enumerated alphabets are covered only through the layering argument of DESIGN.md 3.6."
C={
 "C01":("4.1","E1-enum","All vectors with <=2 (thorough <=3) deviations from an honest triple over 12 constructed dimensions (torsion x encoding x scalar class x S perturbation x length x replacement strings x variant), the full 8x8 torsion grid and every single-bit flip, each executed on Verify/VerifyWithOptions and compared with the documented predicate evaluated by the model.",T),
 "C02":("4.2","E1-enum","Every seed of a 6-bit (thorough: complete 12-bit) seed subspace x SHA-512 block-boundary message lengths x every context length (thorough) x every option style and entropy argument; byte-exact agreement of three independent implementations (library, model, toolchain).",T),
 "C03":("4.3","E1-enum","Every own signature of the seed/message/variant alphabet through both single verifiers and as member of batches of 18 sizes (1..200), every position, on 3 (thorough 7) build configurations.",T),
 "C04":("4.4","E1-enum","Exhaustive enumeration of the word-class alphabet for the S<L decision (all three outcomes of every 64-bit word comparison x every top byte) and of S boundary values in equation-satisfying triples through all four verifier modes.",T),
 "C05":("4.5","E1-enum","The C01 space under ZIP-215 plus the full 14x14 small-order product and constructed small-order triples, with the two mode relations checked on every triple, single and batch.",T),
 "C06":("4.6","E1-enum + E2-seq","Deviation-bounded (number of bad entries <=2, thorough <=3) enumeration of batches over 27 lengths x positions x 15 bad-entry kinds x 6 option sets, and all sequences of <=3 full chunks over 7 chunk kinds x remainders inside one call; every entry compared with the model and with single verification.",T),
 "C07":("4.7","E1-enum","All 144 ordered variant/context pairs x keys x messages x {single, batch 4, batch 65}; every context length 0..300, digest length 0..130, hash selector 0..20 on all three entry points.",T),
 "C08":("4.8","E1-enum x configurations","One deterministic generator of ~12k API calls (triples incl. torsion / non-canonical / boundary cases in both modes, key generation, signing, batches with every bad-entry kind, X25519, conversions) compiled into all 7 build configurations; per-case output digests compared with the default configuration, whose outputs are checked against the model by the other properties.","bounded exhaustive enumeration of inputs x build configurations with transcript equality"),
 "C09":("4.9","E1-enum","Complete finite set of torsion encodings (positive), [k]B+T_i for all 8 T_i (negative), exhaustive 13-bit (thorough 16-bit) y scan, at the predicate and end to end (single and batch call sites), two limb layouts.",T),
 "C16":("4.16","E1-enum","The table selector on its complete finite domain (32 rows x 17 digits) on every backend, all table constants, fixed-base multiplication on the nibble-pattern alphabet through both expansion paths, double-base multiplication on W5/W7 digit alphabets x 14 points incl. small-order / mixed-order / +-B / identity, vs the model; 4 (thorough 7) build configurations.",T),
 "C17":("4.17","E1-enum + E2-seq","The multi-scalar routine on every heap size 2n+1 (thorough: every n in 4..64) x 20 scalar-magnitude profiles (incl. common factors that make the final Bos-Coster scalar > 1) x point profiles, compared with the exact sum from the model; all sequences of <=3 chunk sizes on a reused heap; vartime helpers on limb-boundary pairs; all-valid batches of every size 4..200 end to end with the fallback hook (no fallback allowed).",T),
 "C10":("4.10","E1-enum","Exhaustive 13-bit (thorough 16-bit) y scan x sign, the largest 2^9 (2^12) 255-bit y (all y >= p), 2^k+-1 boundaries: decodability, decoded point, negation, re-encoding and stability vs the model's lenient rule; both square-root branches; Pack of scaled and unreduced representations; two (thorough four) configurations.",T),
 "C11":("4.11","E1-enum","Nibble-pattern scalar alphabet (every radix-16 digit value at every position, carry runs) and boundary scalars on the base-point fast path vs the RFC 7748 ladder; low-order, non-canonical and structured u values on the generic path; on 3 (thorough 7) configurations.",T),
 "C12":("4.12","E1-enum","Seeds of a 6-bit (thorough 12-bit) subspace through both conversion routes, and an exhaustive 13-bit (16-bit) y scan plus boundary strings for the public-key conversion, vs (1+y)/(1-y) from the model.",T),
 "C18":("4.18","E1-enum","Dense per-limb alphabets (full product over all limbs) for reduced elements and caller-reachable unreduced classes derived by running the real add/sub/after-basic/neg operations; every binary op on every ordered pair, Mul on all class pairs, unary ops, chains, serialisation of every representation; both limb layouts and a native 32-bit target; exact residues and limb-bound postconditions vs math/big.",T),
 "C19":("4.19","E1-enum","Reduction on k*L+delta for every quotient size and on word-class strings, Add/Mul on every ordered pair of a ~400 (thorough ~800) element boundary alphabet with canonical-limb postcondition, radix-16 recoding on every nibble pattern below 2^255 and sliding-window recodings (w=5,7) on d*2^i / run / periodic alphabets; both limb layouts and GOARCH=386; vs math/big.",T),
 "C13":("4.13","E1-enum + E2-seq","Exhaustive shape enumeration (lengths, nil, selectors, counts, malformed entry kinds x positions, aliasing) under recover with canary-guarded inputs, and all entropy-reader answer sequences with <=2 deviations over up to 3 chunks.","bounded exhaustive enumeration of input shapes and environment answers (deviation-bounded) against a contract table"),
 "C14":("4.14","E2-seq + E1-enum","All reader behaviours of a delivery-pattern x failure-point x failure-kind alphabet for GenerateKey; every single-bit flip for Equal; accessor aliasing on 64 seeds.","bounded exhaustive enumeration of environment answers and input perturbations"),
}
checks=[]
for pid,(ref,eng,text,tech) in sorted(C.items()):
    checks.append({"property_id":pid,"quick_cmd":"./check.sh %s quick"%pid,"thorough_cmd":"./check.sh %s thorough"%pid,
      "evidence_file":"/verif/evidence/%s.json"%pid,"replay_cmd_template":"./bin/vcheck replay {path}","engine":eng,
      "level_claimed":{"category":"model_checking","text":text,"design_ref":ref},"level_note":trust,"technique":tech})
hooks=json.load(open('/verif/hooks.json'))
m={"version":1,"setup_cmd":"./setup.sh","hooks":hooks,
 "engines":[
  {"name":"E1-enum","path":"cmd/vcheck, rt/, harness/","serves_properties":[p for p in sorted(C) if 'E1' in C[p][1]],"kind_free_text":"deviation-bounded exhaustive product enumeration of constructed inputs on the real code, sharded over 16 worker processes, vs math/big reference model (ref/)"},
  {"name":"E2-seq","path":"cmd/vcheck, rt/, harness/","serves_properties":[p for p in sorted(C) if 'E2' in C[p][1]],"kind_free_text":"exhaustive enumeration of operation / chunk / environment-answer sequences up to a depth on the real code"},
 ],
 "checks":checks,
 "not_applicable":[{"property_id":p,"reason":"check not built yet in this round (planned, see DESIGN.md section 4)"} for p in props if p not in C],
 "notes":"All checks rebuild in-package harnesses from /repo's working tree with go test -c -overlay (nothing copied into /repo). Exit 0 held / 1 VIOLATION / 2 infrastructure error."}
json.dump(m,open('/verif/MANIFEST.json','w'),indent=1)
print("claimed",len(checks),"n/a",len(m["not_applicable"]))
