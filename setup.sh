#!/bin/sh
# Builds the driver from files on disk only (offline) and self-tests the reference model.
set -e
cd "$(dirname "$0")"
export GOFLAGS=-mod=mod GOPROXY=off GOSUMDB=off GOTOOLCHAIN=local
mkdir -p bin .work evidence replays
go build -o bin/vcheck ./cmd/vcheck
go test -count=1 ./ref/ >/dev/null || { echo "MODEL-SELFTEST-FAILED"; exit 2; }
./bin/vcheck warm || true
echo setup ok
