package rt

import "unsafe"

func addrOf(p *byte) uintptr { return uintptr(unsafe.Pointer(p)) }
