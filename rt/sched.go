package rt

// Runtime for the instrumented builds: registry of package-level variables (content hashing),
// access hooks + cooperative scheduler (E3), trace events (E4). go1.12 language level.

import (
	"bytes"
	"fmt"
	"hash/fnv"
	"math/big"
	"reflect"
	"runtime"
	"sort"
	"sync"
	"unsafe"
)

// ---- globals registry -----------------------------------------------------------------------------

type global struct {
	name string
	raw  unsafe.Pointer
	size uintptr
	ref  interface{} // pointer to the variable (pointerful types)
}

var (
	globals   []*global
	globalIdx = map[string]int{}
	siteNames = map[int]string{}
)

// RegisterGlobalRaw registers a pointer-free package-level variable (hashed as raw memory).
func RegisterGlobalRaw(name string, p unsafe.Pointer, size uintptr) {
	globalIdx[name] = len(globals)
	globals = append(globals, &global{name: name, raw: p, size: size})
}

// RegisterGlobalRef registers a package-level variable whose type contains pointers.
func RegisterGlobalRef(name string, ptr interface{}) {
	globalIdx[name] = len(globals)
	globals = append(globals, &global{name: name, ref: ptr})
}

// SyncUses lists where the library itself uses synchronisation primitives (filled by generated code).
var SyncUses []string

// NoteSyncUse records one use of a synchronisation primitive in the library.
func NoteSyncUse(s string) { SyncUses = append(SyncUses, s) }

// RegisterSite names an instrumentation site.
func RegisterSite(id int, s string) { siteNames[id] = s }

// SiteName returns file:line of a site.
func SiteName(id int) string {
	if s, ok := siteNames[id]; ok {
		return s
	}
	return fmt.Sprintf("site#%d", id)
}

func hashBytes(h uint64, b []byte) uint64 {
	for len(b) >= 8 {
		v := uint64(b[0]) | uint64(b[1])<<8 | uint64(b[2])<<16 | uint64(b[3])<<24 | uint64(b[4])<<32 | uint64(b[5])<<40 | uint64(b[6])<<48 | uint64(b[7])<<56
		h = (h ^ v) * 0x100000001b3
		h ^= h >> 29
		b = b[8:]
	}
	for _, c := range b {
		h = (h ^ uint64(c)) * 0x100000001b3
	}
	return h
}

func (g *global) hash() uint64 {
	if g.raw != nil {
		var b []byte
		sh := (*reflect.SliceHeader)(unsafe.Pointer(&b))
		sh.Data, sh.Len, sh.Cap = uintptr(g.raw), int(g.size), int(g.size)
		return hashBytes(14695981039346656037, b)
	}
	h := fnv.New64a()
	deepHash(h, reflect.ValueOf(g.ref).Elem(), 0)
	return h.Sum64()
}

type writer interface{ Write([]byte) (int, error) }

func deepHash(h writer, v reflect.Value, depth int) {
	if depth > 6 {
		return
	}
	switch v.Kind() {
	case reflect.Bool:
		if v.Bool() {
			h.Write([]byte{1})
		} else {
			h.Write([]byte{0})
		}
	case reflect.Int, reflect.Int8, reflect.Int16, reflect.Int32, reflect.Int64:
		fmt.Fprintf(h, "%d,", v.Int())
	case reflect.Uint, reflect.Uint8, reflect.Uint16, reflect.Uint32, reflect.Uint64, reflect.Uintptr:
		fmt.Fprintf(h, "%d,", v.Uint())
	case reflect.String:
		fmt.Fprintf(h, "%q,", v.String())
	case reflect.Slice:
		if v.IsNil() {
			h.Write([]byte("nil-slice"))
			return
		}
		fmt.Fprintf(h, "[%d:", v.Len())
		if v.Type().Elem().Kind() == reflect.Uint8 {
			h.Write(v.Bytes())
		} else {
			for i := 0; i < v.Len(); i++ {
				deepHash(h, v.Index(i), depth+1)
			}
		}
	case reflect.Array:
		for i := 0; i < v.Len(); i++ {
			deepHash(h, v.Index(i), depth+1)
		}
	case reflect.Struct:
		for i := 0; i < v.NumField(); i++ {
			deepHash(h, v.Field(i), depth+1)
		}
	case reflect.Ptr, reflect.Interface:
		if v.IsNil() {
			h.Write([]byte("nil"))
			return
		}
		fmt.Fprintf(h, "%s:", v.Elem().Type())
		deepHash(h, v.Elem(), depth+1)
	case reflect.Func, reflect.Chan, reflect.Map, reflect.UnsafePointer:
		if v.IsNil() {
			h.Write([]byte("nil"))
		} else {
			fmt.Fprintf(h, "%s@%x", v.Kind(), v.Pointer())
		}
	default:
		fmt.Fprintf(h, "?%s", v.Kind())
	}
}

// GlobalNames lists the registered variables.
func GlobalNames() []string {
	var out []string
	for _, g := range globals {
		out = append(out, g.name)
	}
	sort.Strings(out)
	return out
}

// Snapshot returns name -> content hash of every registered variable.
func Snapshot() map[string]uint64 {
	m := make(map[string]uint64, len(globals))
	for _, g := range globals {
		m[g.name] = g.hash()
	}
	return m
}

// SnapshotDiff lists the variables whose content differs between two snapshots.
func SnapshotDiff(a, b map[string]uint64) []string {
	var out []string
	for k, v := range a {
		if b[k] != v {
			out = append(out, k)
		}
	}
	sort.Strings(out)
	return out
}

// SnapshotDigest folds a snapshot into one value.
func SnapshotDigest(m map[string]uint64) uint64 {
	names := make([]string, 0, len(m))
	for k := range m {
		names = append(names, k)
	}
	sort.Strings(names)
	h := uint64(14695981039346656037)
	for _, n := range names {
		h = hashBytes(h, []byte(n))
		h = (h ^ m[n]) * 0x100000001b3
	}
	return h
}

// ---- E3: access hooks and cooperative scheduler -------------------------------------------------------

// Point is one scheduling point of an execution.
type Point struct {
	Thread  int    `json:"t"` // thread that reached the point
	Site    int    `json:"s"` // instrumentation site (-1: thread start, -2: between calls)
	Var     string `json:"v"` // variable accessed
	Enabled []int  `json:"e"` // threads that could run next, running thread first
	Chosen  int    `json:"c"` // index into Enabled
	Write   bool   `json:"w"` // syntactic write
}

// AccessRec summarises accesses to one variable by one thread.
type AccessRec struct {
	Reads, Writes int
	FirstSite     int
	WriteSite     int
	Changed       bool // content changed between two observation points while this thread was running
}

// Sched is the cooperative scheduler: exactly one harness thread runs at a time; control is handed
// over only inside Access hooks (and at call boundaries) according to a choice sequence.
type Sched struct {
	active    bool
	cur       int
	n         int
	resume    []chan bool
	done      []bool
	finished  chan int
	choices   []int // prefix to replay; afterwards choice 0 (keep running)
	Points    []Point
	pointVars map[string]bool // variables whose accesses are scheduling points (nil: none)
	allPoints bool
	Acc       []map[string]*AccessRec // per thread
	lastHash  map[string]uint64
	Diverged  string
	maxPoints int
	stride    map[string]int // per variable: only every k-th access is a scheduling point
	counter   map[string]int
	tracking  bool
	// goroutines the LIBRARY starts are not harness threads: their accesses are recorded (attributed to
	// the running thread) but are never scheduling points. They are recognised by goroutine id, looked
	// up only while more goroutines exist than the harness itself started.
	mu      sync.Mutex
	gids    map[int64]bool
	baseG   int
	Foreign int64 // accesses made by goroutines the library started
}

// curGoid parses the current goroutine's id from its stack header ("goroutine 123 [running]:").
func curGoid() int64 {
	var buf [40]byte
	n := runtime.Stack(buf[:], false)
	var id int64
	for _, ch := range buf[10:n] {
		if ch < '0' || ch > '9' {
			break
		}
		id = id*10 + int64(ch-'0')
	}
	return id
}

var sched *Sched

// NewSched prepares a scheduler for n threads.
func NewSched(n int, choices []int, pointVars []string, stride map[string]int) *Sched {
	s := &Sched{n: n, choices: choices, finished: make(chan int, n), lastHash: map[string]uint64{}, stride: stride, counter: map[string]int{}, tracking: true}
	if pointVars != nil {
		s.pointVars = map[string]bool{}
		for _, v := range pointVars {
			s.pointVars[v] = true
		}
	}
	for i := 0; i < n; i++ {
		s.resume = append(s.resume, make(chan bool, 1))
		s.done = append(s.done, false)
		s.Acc = append(s.Acc, map[string]*AccessRec{})
	}
	return s
}

func (s *Sched) enabled() []int {
	out := []int{}
	if !s.done[s.cur] {
		out = append(out, s.cur)
	}
	for i := 0; i < s.n; i++ {
		if i != s.cur && !s.done[i] {
			out = append(out, i)
		}
	}
	return out
}

// point records a scheduling point and switches thread if the schedule says so.
func (s *Sched) point(site int, v string, w bool) {
	en := s.enabled()
	if len(en) == 0 {
		return
	}
	k := len(s.Points)
	choice := 0
	if k < len(s.choices) {
		choice = s.choices[k]
		if choice >= len(en) {
			s.Diverged = fmt.Sprintf("choice %d at point %d out of range (%d enabled)", choice, k, len(en))
			choice = 0
		}
	}
	s.Points = append(s.Points, Point{Thread: s.cur, Site: site, Var: v, Enabled: en, Chosen: choice, Write: w})
	next := en[choice]
	if next != s.cur {
		me := s.cur
		s.cur = next
		s.resume[next] <- true
		if !s.done[me] {
			<-s.resume[me]
		}
	}
}

func (s *Sched) access(site int, v string, w bool) {
	foreign := false
	if s.baseG > 0 && runtime.NumGoroutine() > s.baseG {
		id := curGoid()
		s.mu.Lock()
		foreign = !s.gids[id]
		s.mu.Unlock()
	}
	s.mu.Lock()
	if foreign {
		s.Foreign++
	}
	s.record(site, v, w)
	s.mu.Unlock()
	if foreign {
		return
	}
	if s.pointVars != nil && s.pointVars[v] {
		if st := s.stride[v]; st > 1 {
			s.counter[v]++
			if s.counter[v]%st != 1 {
				return
			}
		}
		s.point(site, v, w)
	}
}

func (s *Sched) record(site int, v string, w bool) {
	t := s.cur
	a := s.Acc[t][v]
	if a == nil {
		a = &AccessRec{FirstSite: site, WriteSite: -1}
		s.Acc[t][v] = a
	}
	if w {
		a.Writes++
		if a.WriteSite < 0 {
			a.WriteSite = site
		}
	} else {
		a.Reads++
	}
	if s.tracking {
		if gi, ok := globalIdx[v]; ok {
			h := globals[gi].hash()
			if old, seen := s.lastHash[v]; seen && old != h {
				a.Changed = true
				if a.WriteSite < 0 {
					a.WriteSite = site
				}
			}
			s.lastHash[v] = h
		}
	}
}

// Access is called by instrumented code before a statement that reads a package-level variable.
func Access(site int, v string) {
	if s := sched; s != nil && s.active {
		s.access(site, v, false)
	}
}

// AccessW is called before a statement that syntactically assigns to a package-level variable.
func AccessW(site int, v string) {
	if s := sched; s != nil && s.active {
		s.access(site, v, true)
	}
}

// Run executes the thread bodies under the scheduler. Each body is a list of calls; a scheduling
// point is placed before every call (call boundaries).
func (s *Sched) Run(bodies [][]func()) {
	sched = s
	// baseline hashes of all globals (detects writes even before the first access)
	for _, g := range globals {
		s.lastHash[g.name] = g.hash()
	}
	s.gids = map[int64]bool{}
	var reg sync.WaitGroup
	reg.Add(len(bodies))
	for i := range bodies {
		go func(i int) {
			s.mu.Lock()
			s.gids[curGoid()] = true
			s.mu.Unlock()
			reg.Done()
			<-s.resume[i]
			for ci, call := range bodies[i] {
				if ci > 0 {
					s.point(-2, "", false)
				}
				call()
			}
			s.done[i] = true
			// end of thread: attribute content changes since the last observation to this thread
			for _, g := range globals {
				h := g.hash()
				if old := s.lastHash[g.name]; old != h {
					a := s.Acc[i][g.name]
					if a == nil {
						a = &AccessRec{FirstSite: -1, WriteSite: -1}
						s.Acc[i][g.name] = a
					}
					a.Changed = true
					s.lastHash[g.name] = h
				}
			}
			en := s.enabled()
			if len(en) == 0 {
				s.finished <- i
				return
			}
			// thread end is a scheduling point too (which thread continues)
			k := len(s.Points)
			choice := 0
			if k < len(s.choices) && s.choices[k] < len(en) {
				choice = s.choices[k]
			}
			s.Points = append(s.Points, Point{Thread: i, Site: -3, Enabled: en, Chosen: choice})
			s.cur = en[choice]
			s.resume[s.cur] <- true
		}(i)
	}
	reg.Wait()
	s.baseG = runtime.NumGoroutine()
	s.active = true
	s.cur = 0
	// first point: which thread starts
	en := []int{}
	for i := 0; i < s.n; i++ {
		en = append(en, i)
	}
	choice := 0
	if len(s.choices) > 0 && s.choices[0] < len(en) {
		choice = s.choices[0]
	}
	s.Points = append(s.Points, Point{Thread: -1, Site: -1, Enabled: en, Chosen: choice})
	s.cur = en[choice]
	s.resume[s.cur] <- true
	<-s.finished
	s.active = false
	sched = nil
}

// ---- E4: trace events ----------------------------------------------------------------------------------

// Trace collects control-flow / index / leak-model events.
type Trace struct {
	Hash   uint64
	N      int64
	Log    []string // filled when Keep > 0 (first Keep events)
	Keep   int
	active bool
}

var trace *Trace

// StartTrace begins a trace (keep = number of events to log verbatim, 0 = hash only).
func StartTrace(keep int) *Trace {
	trace = &Trace{Hash: 14695981039346656037, Keep: keep, active: true}
	return trace
}

// StopTrace ends the current trace.
func StopTrace() *Trace {
	t := trace
	if t != nil {
		t.active = false
	}
	trace = nil
	return t
}

func (t *Trace) ev(kind byte, site int, val int64) {
	t.Hash = (t.Hash ^ uint64(kind)) * 0x100000001b3
	t.Hash = (t.Hash ^ uint64(site)) * 0x100000001b3
	t.Hash = (t.Hash ^ uint64(val)) * 0x100000001b3
	t.Hash ^= t.Hash >> 31
	if t.Keep > 0 && (len(t.Log) < t.Keep) {
		t.Log = append(t.Log, fmt.Sprintf("%c %d %d", kind, site, val))
	}
	t.N++
}

// B logs a branch outcome.
func B(site int, c bool) bool {
	if t := trace; t != nil && t.active {
		v := int64(0)
		if c {
			v = 1
		}
		t.ev('b', site, v)
	}
	return c
}

// I logs a non-constant index or slice bound.
func I(site int, i int) int {
	if t := trace; t != nil && t.active {
		t.ev('i', site, int64(i))
	}
	return i
}

// V logs a switch tag value.
func V(site int, v int64) int64 {
	if t := trace; t != nil && t.active {
		t.ev('v', site, v)
	}
	return v
}

// T logs one loop iteration.
func T(site int) {
	if t := trace; t != nil && t.active {
		t.ev('t', site, 0)
	}
}

func commonPrefix(a, b []byte) int {
	n := 0
	for n < len(a) && n < len(b) && a[n] == b[n] {
		n++
	}
	return n
}

// BytesEqual is bytes.Equal with its leak model logged (lengths and the length of the common
// prefix, which an early-exit comparison reveals through timing).
func BytesEqual(site int, a, b []byte) bool {
	if t := trace; t != nil && t.active {
		t.ev('e', site, int64(len(a))<<40|int64(len(b))<<20|int64(commonPrefix(a, b)))
	}
	return bytes.Equal(a, b)
}

// BytesCompare is bytes.Compare with its leak model logged.
func BytesCompare(site int, a, b []byte) int {
	if t := trace; t != nil && t.active {
		t.ev('c', site, int64(len(a))<<40|int64(len(b))<<20|int64(commonPrefix(a, b)))
	}
	return bytes.Compare(a, b)
}

// BytesHasPrefix logs like BytesEqual.
func BytesHasPrefix(site int, a, b []byte) bool {
	if t := trace; t != nil && t.active {
		t.ev('p', site, int64(len(a))<<40|int64(len(b))<<20|int64(commonPrefix(a, b)))
	}
	return bytes.HasPrefix(a, b)
}

// BytesHasSuffix logs the result (position-dependent early exit).
func BytesHasSuffix(site int, a, b []byte) bool {
	r := bytes.HasSuffix(a, b)
	if t := trace; t != nil && t.active {
		t.ev('s', site, int64(len(a))<<20|int64(len(b)))
		B(site, r)
	}
	return r
}

// BytesIndex logs the result index (scan length).
func BytesIndex(site int, a, b []byte) int {
	r := bytes.Index(a, b)
	if t := trace; t != nil && t.active {
		t.ev('x', site, int64(r))
	}
	return r
}

// BytesIndexByte logs the result index (scan length).
func BytesIndexByte(site int, a []byte, c byte) int {
	r := bytes.IndexByte(a, c)
	if t := trace; t != nil && t.active {
		t.ev('x', site, int64(r))
	}
	return r
}

// BytesContains logs the scan length.
func BytesContains(site int, a, b []byte) bool {
	r := bytes.Index(a, b)
	if t := trace; t != nil && t.active {
		t.ev('x', site, int64(r))
	}
	return r >= 0
}

// SetTracking switches per-access content hashing (write discovery) on or off.
func (s *Sched) SetTracking(on bool) { s.tracking = on }

// BI logs the leak model of a math/big operand (its bit length) and returns it unchanged.
func BI(site int, x *big.Int) *big.Int {
	if t := trace; t != nil && t.active && x != nil {
		t.ev('g', site, int64(x.BitLen()))
	}
	return x
}
