package rt

// Fresh-process execution of one history / schedule: the worker re-executes its own test binary.

import (
	"bytes"
	"encoding/json"
	"fmt"
	"io/ioutil"
	"os"
	"os/exec"
	"strings"
	"time"
)

var childFuncs = map[string]func(payload []byte) interface{}{}

// RegisterChild registers a function that runs in a fresh child process.
func RegisterChild(kind string, f func(payload []byte) interface{}) { childFuncs[kind] = f }

const childMarker = "VERIF-CHILD-RESULT "

// childMain runs the requested child function, if this process is a child.
func childMain() bool {
	kind := os.Getenv("VERIF_CHILD")
	if kind == "" {
		return false
	}
	f, ok := childFuncs[kind]
	if !ok {
		fmt.Println(childMarker + `{"error":"unknown child kind"}`)
		return true
	}
	payload := []byte(os.Getenv("VERIF_CHILD_PAYLOAD"))
	if pf := os.Getenv("VERIF_CHILD_PAYLOAD_FILE"); pf != "" {
		b, err := ioutil.ReadFile(pf)
		if err != nil {
			fmt.Fprintln(os.Stderr, "cannot read child payload:", err)
			os.Exit(3)
		}
		payload = b
	}
	res := f(payload)
	b, err := json.Marshal(res)
	if err != nil {
		b = []byte(fmt.Sprintf(`{"error":%q}`, err.Error()))
	}
	fmt.Println(childMarker + string(b))
	return true
}

// RunChild executes kind(payload) in a fresh process of the same test binary and returns the JSON
// result, the child's stderr, and an error if the child failed or produced no result.
func RunChild(kind string, payload interface{}, extraEnv []string) ([]byte, string, error) {
	pb, err := json.Marshal(payload)
	if err != nil {
		return nil, "", err
	}
	cmd := exec.Command(os.Args[0], "-test.run", "^TestVerif$", "-test.count", "1", "-test.timeout", "0")
	env := []string{}
	for _, e := range os.Environ() {
		if strings.HasPrefix(e, "VERIF_JOB=") || strings.HasPrefix(e, "VERIF_OUT=") || strings.HasPrefix(e, "VERIF_CHILD") {
			continue
		}
		env = append(env, e)
	}
	if len(pb) > 60000 {
		// a single environment string is limited to 128 KiB: long histories travel in a file
		tf, err := ioutil.TempFile("", "verif_payload_")
		if err != nil {
			return nil, "", err
		}
		tf.Write(pb)
		tf.Close()
		defer os.Remove(tf.Name())
		env = append(env, "VERIF_CHILD="+kind, "VERIF_CHILD_PAYLOAD_FILE="+tf.Name())
	} else {
		env = append(env, "VERIF_CHILD="+kind, "VERIF_CHILD_PAYLOAD="+string(pb))
	}
	env = append(env, extraEnv...)
	cmd.Env = env
	var so, se bytes.Buffer
	cmd.Stdout, cmd.Stderr = &so, &se
	if err := cmd.Start(); err != nil {
		return nil, "", err
	}
	done := make(chan error, 1)
	go func() { done <- cmd.Wait() }()
	var werr error
	select {
	case werr = <-done:
	case <-time.After(180 * time.Second):
		cmd.Process.Kill()
		werr = fmt.Errorf("child did not finish within 180s (killed)")
	}
	var out []byte
	for _, ln := range strings.Split(so.String(), "\n") {
		if strings.HasPrefix(ln, childMarker) {
			out = []byte(strings.TrimPrefix(ln, childMarker))
		}
	}
	stderr := se.String()
	if out == nil {
		if werr == nil {
			werr = fmt.Errorf("child produced no result")
		}
		return nil, stderr + "\n" + so.String(), werr
	}
	if werr != nil {
		return out, stderr, werr
	}
	return out, stderr, nil
}
