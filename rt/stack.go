package rt

// Stack-position sweep: run f on fresh goroutines whose stacks are pre-filled to every depth (in 8-byte
// steps, as far as the two recursion frames allow) up to maxBytes. A goroutine stack is relocated when
// a function entry finds it exhausted; WHICH entry that is depends on the depth at which the operation
// starts. Code that keeps a stack address in an integer, or hands stack memory to something that
// outlives the move, misbehaves only at particular depths.

//go:noinline
func stackFrameA(n int, m int, f func()) byte {
	var pad [40]byte
	pad[n&7] = byte(n)
	if n > 0 {
		return stackFrameA(n-1, m, f) + pad[(n+1)&7]
	}
	return stackFrameB(m, f) + pad[1]
}

//go:noinline
func stackFrameB(m int, f func()) byte {
	var pad [48]byte
	pad[m&7] = byte(m)
	if m > 0 {
		return stackFrameB(m-1, f) + pad[(m+1)&7]
	}
	f()
	return pad[2]
}

//go:noinline
func frameProbeA(n int, out *[2]uintptr) byte {
	var pad [40]byte
	pad[n&7] = byte(n)
	out[n] = addrOf(&pad[0])
	if n > 0 {
		return frameProbeA(n-1, out) + pad[3]
	}
	return pad[4]
}

//go:noinline
func frameProbeB(n int, out *[2]uintptr) byte {
	var pad [48]byte
	pad[n&7] = byte(n)
	out[n] = addrOf(&pad[0])
	if n > 0 {
		return frameProbeB(n-1, out) + pad[3]
	}
	return pad[4]
}

// FrameSizes measures the two recursion frames (bytes).
func FrameSizes() (int, int) {
	var a, b [2]uintptr
	frameProbeA(1, &a)
	frameProbeB(1, &b)
	return int(a[1] - a[0]), int(b[1] - b[0])
}

// StackSweep calls f once per depth on a fresh goroutine; stop() == true ends the sweep early.
// It returns the number of depths run.
func StackSweep(maxBytes int, f func(), stop func() bool) int {
	fa, fb := FrameSizes()
	if fa <= 0 || fb <= 0 {
		fa, fb = 64, 72
	}
	g := gcd(fa, fb)
	nb := fa / g // m = 0..nb-1 reaches every residue of g modulo fa
	runs := 0
	for n := 0; n*fa <= maxBytes; n++ {
		for m := 0; m < nb; m++ {
			done := make(chan struct{})
			go func() {
				defer close(done)
				stackFrameA(n, m, f)
			}()
			<-done
			runs++
			if stop != nil && stop() {
				return runs
			}
		}
	}
	return runs
}

func gcd(a, b int) int {
	for b != 0 {
		a, b = b, a%b
	}
	return a
}
