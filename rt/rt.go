// Package rt is the worker-side runtime of the explorer: deterministic case indexing and
// sharding, outcome-class / distinct-case accounting, violation records, result file.
// Mounted into the library module as .../internal/zzverifrt by overlay. Stdlib only; go1.12 language.
package rt

import (
	"encoding/binary"
	"encoding/json"
	"fmt"
	"hash/fnv"
	"io/ioutil"
	"os"
	"runtime"
	"runtime/debug"
	"sort"
	"strconv"
	"strings"
	"sync/atomic"
	"time"
)

// Violation is one failed comparison.
type Violation struct {
	Index  int64                  `json:"index"`
	Key    string                 `json:"key"`    // stable signature used for known-finding matching
	Msg    string                 `json:"msg"`    // human readable
	Detail map[string]interface{} `json:"detail"` // inputs (hex), expected, observed
}

// Result is what a worker writes.
type Result struct {
	Job          string           `json:"job"`
	Shard        int              `json:"shard"`
	NShards      int              `json:"nshards"`
	Cases        int64            `json:"cases"`       // enumerated indices (whole space, all shards see the same)
	Evaluated    int64            `json:"evaluated"`   // cases executed by this shard
	Transitions  int64            `json:"transitions"` // implementation calls executed and compared
	Classes      map[string]int64 `json:"classes"`
	Violations   []Violation      `json:"violations"`
	NViolations  int64            `json:"nviolations"`
	Samples      []interface{}    `json:"samples"`
	Extra        map[string]int64 `json:"extra"`
	Notes        []string         `json:"notes"`
	Required     []string         `json:"required"`
	Transcript   string           `json:"transcript,omitempty"`
	Exhaustive   bool             `json:"exhaustive"`
	DeadlineHit  bool             `json:"deadline_hit"`
	Completed    bool             `json:"completed"`
	HarnessError string           `json:"harness_error,omitempty"`
	WallS        float64          `json:"wall_s"`
}

// Ctx is handed to every job.
type Ctx struct {
	// 64-bit fields accessed atomically come first (alignment on 32-bit targets)
	curIndex    int64
	lastTake    int64
	Job         string
	Tier        string
	Seed        int64
	Shard       int
	NShards     int
	Only        int64 // >= 0: replay exactly this case index
	Upto        int64 // >= 0: history replay - this shard's cases up to and including this index
	Config      string
	curProcs    int
	lastGCBlock int64
	out         string
	idx         int64
	res         Result
	keys        map[uint64]bool // low bit of value: nontrivial
	start       time.Time
	deadline    time.Time
	transcript  []string
	finished    bool
	stage       string
	maxViol     int
	Params      map[string]string
}

// Start reads the worker environment.
func Start() *Ctx {
	c := &Ctx{Only: -1, Upto: -1, keys: map[uint64]bool{}, start: time.Now(), maxViol: 20, Params: map[string]string{}}
	c.Job = os.Getenv("VERIF_JOB")
	c.Tier = os.Getenv("VERIF_TIER")
	if c.Tier == "" {
		c.Tier = "quick"
	}
	c.Seed = 1
	if s := os.Getenv("VERIF_SEED"); s != "" {
		if v, err := strconv.ParseInt(s, 10, 64); err == nil {
			c.Seed = v
		}
	}
	c.NShards = 1
	if s := os.Getenv("VERIF_SHARD"); s != "" {
		p := strings.Split(s, "/")
		if len(p) == 2 {
			c.Shard, _ = strconv.Atoi(p[0])
			c.NShards, _ = strconv.Atoi(p[1])
		}
	}
	if s := os.Getenv("VERIF_UPTO"); s != "" {
		c.Upto, _ = strconv.ParseInt(s, 10, 64)
	}
	if s := os.Getenv("VERIF_ONLY"); s != "" {
		c.Only, _ = strconv.ParseInt(s, 10, 64)
	}
	if s := os.Getenv("VERIF_DEADLINE_S"); s != "" {
		if v, err := strconv.Atoi(s); err == nil && v > 0 {
			c.deadline = c.start.Add(time.Duration(v) * time.Second)
		}
	}
	for _, kv := range strings.Split(os.Getenv("VERIF_PARAMS"), ",") {
		p := strings.SplitN(kv, "=", 2)
		if len(p) == 2 {
			c.Params[p[0]] = p[1]
		}
	}
	c.Config = os.Getenv("VERIF_CONFIG")
	c.out = os.Getenv("VERIF_OUT")
	c.res.Job, c.res.Shard, c.res.NShards = c.Job, c.Shard, c.NShards
	c.res.Classes = map[string]int64{}
	c.res.Extra = map[string]int64{}
	c.res.Exhaustive = true
	c.lastTake = time.Now().UnixNano()
	limit := 120
	if s := os.Getenv("VERIF_CASE_TIMEOUT_S"); s != "" {
		if v, err := strconv.Atoi(s); err == nil && v > 0 {
			limit = v
		}
	}
	go c.watchdog(time.Duration(limit) * time.Second)
	return c
}

// watchdog turns a case that does not return (a hang in the code under test) into a recorded
// violation instead of a stuck worker: the main goroutine is busy inside the case, so touching the
// result here is safe enough; the process exits right after writing it.
func (c *Ctx) watchdog(limit time.Duration) {
	for {
		time.Sleep(time.Second)
		if c.finished {
			return
		}
		last := atomic.LoadInt64(&c.lastTake)
		if time.Since(time.Unix(0, last)) > limit {
			c.res.NViolations++
			c.res.Violations = append(c.res.Violations, Violation{Index: atomic.LoadInt64(&c.curIndex), Key: c.Job + " hang", Msg: fmt.Sprintf("case %d did not return within %v (non-termination or extreme slowdown in the code under test)", c.curIndex, limit), Detail: map[string]interface{}{"stage": c.stage}})
			c.res.Exhaustive = false
			c.Finish()
			os.Exit(3)
		}
	}
}

// Stage labels what the current case is doing (reported if the case hangs).
func (c *Ctx) Stage(s string) { c.stage = s }

// Thorough reports the tier.
func (c *Ctx) Thorough() bool { return c.Tier == "thorough" }

// Take advances the case index and reports whether this worker executes the case.
// All workers enumerate the same index sequence; construction must happen after Take.
func (c *Ctx) Take() bool {
	i := c.idx
	c.idx++
	atomic.StoreInt64(&c.curIndex, i)
	atomic.StoreInt64(&c.lastTake, time.Now().UnixNano())
	if c.Only >= 0 {
		if i != c.Only {
			return false
		}
	} else if int(i%int64(c.NShards)) != c.Shard {
		return false
	} else if c.Upto >= 0 && i > c.Upto {
		return false
	}
	if !c.deadline.IsZero() && i%64 == 0 && time.Now().After(c.deadline) {
		c.res.DeadlineHit = true
	}
	if c.res.DeadlineHit {
		c.res.Exhaustive = false
		return false
	}
	c.res.Evaluated++
	c.rotateEnv(i)
	return true
}

// rotateEnv: the process environment is a dimension of every enumeration. As a function of the case
// index alone (so that a replay of the case sees the same), GOMAXPROCS rotates over a list of values
// that includes non-powers of two and values above the host's processor count, and every 16th block
// of 512 cases starts with a garbage collection (which empties sync.Pools). Not applied to the
// scheduler / trace jobs, which control the runtime themselves.
var envProcs = []int{1, 16, 2, 3, 5, 8, 12, 24, 4, 32, 7, 48}

func (c *Ctx) rotateEnv(i int64) {
	if strings.HasPrefix(c.Job, "C15") || strings.HasPrefix(c.Job, "C20") || os.Getenv("VERIF_NO_ENV_ROTATION") != "" {
		return
	}
	blk := i >> 9
	want := envProcs[int(blk%int64(len(envProcs)))]
	if want != c.curProcs {
		runtime.GOMAXPROCS(want)
		c.curProcs = want
	}
	if blk%16 == 5 && blk != c.lastGCBlock {
		c.lastGCBlock = blk
		runtime.GC()
	}
}

// Index is the index of the case last taken.
func (c *Ctx) Index() int64 { return c.curIndex }

// Step counts n implementation calls compared with the oracle.
func (c *Ctx) Step(n int) { c.res.Transitions += int64(n) }

// Class counts an outcome class.
func (c *Ctx) Class(name string) { c.res.Classes[name]++ }

// ClassN counts an outcome class n times.
func (c *Ctx) ClassN(name string, n int) { c.res.Classes[name] += int64(n) }

// Extra accumulates a named counter.
func (c *Ctx) Extra(name string, n int64) { c.res.Extra[name] += n }

// ExtraMax keeps a maximum.
func (c *Ctx) ExtraMax(name string, n int64) {
	if n > c.res.Extra[name] {
		c.res.Extra[name] = n
	}
}

// Distinct records an abstract case key; nontrivial per the property's rule.
func (c *Ctx) Distinct(key string, nontrivial bool) {
	h := fnv.New64a()
	h.Write([]byte(key))
	k := h.Sum64() &^ 1
	if nontrivial {
		c.keys[k|1] = true
	} else {
		c.keys[k] = true
	}
}

// DistinctB is Distinct on raw bytes.
func (c *Ctx) DistinctB(nontrivial bool, parts ...[]byte) {
	h := fnv.New64a()
	for _, p := range parts {
		h.Write(p)
		h.Write([]byte{0xfe})
	}
	k := h.Sum64() &^ 1
	if nontrivial {
		c.keys[k|1] = true
	} else {
		c.keys[k] = true
	}
}

// Sample keeps the first few written-out cases (spread: first 3 per shard).
func (c *Ctx) Sample(v interface{}) {
	if len(c.res.Samples) < 3 {
		c.res.Samples = append(c.res.Samples, v)
	}
}

// WantSample reports whether another sample is still wanted.
func (c *Ctx) WantSample() bool { return len(c.res.Samples) < 3 }

// Note adds a free-text note.
func (c *Ctx) Note(format string, a ...interface{}) {
	if len(c.res.Notes) < 50 {
		c.res.Notes = append(c.res.Notes, fmt.Sprintf(format, a...))
	}
}

// Violation records a failed comparison for the current case.
func (c *Ctx) Violation(key, msg string, detail map[string]interface{}) {
	c.res.NViolations++
	if len(c.res.Violations) < c.maxViol {
		c.res.Violations = append(c.res.Violations, Violation{Index: c.curIndex, Key: key, Msg: msg, Detail: detail})
	}
}

// Violations so far.
func (c *Ctx) NViolations() int64 { return c.res.NViolations }

// Fail records a harness-level error (never a property violation): exit 2 in the driver.
func (c *Ctx) Fail(format string, a ...interface{}) {
	if c.res.HarnessError == "" {
		c.res.HarnessError = fmt.Sprintf(format, a...)
	}
}

// Require declares outcome classes that the whole run (all shards together) must produce at
// least once; the driver refuses to report success otherwise (vacuity guard).
func (c *Ctx) Require(classes ...string) {
	c.res.Required = append(c.res.Required, classes...)
}

// SetTranscript attaches a transcript file path (C08).
func (c *Ctx) SetTranscript(p string) { c.res.Transcript = p }

// Transcript records the output digest of the current case (C08: compared across build
// configurations by the driver). In replay mode with an expected digest in VERIF_PARAMS
// ("expect=<hex>") a mismatch is reported as a violation right here.
func (c *Ctx) Transcript(digest []byte, describe func() map[string]interface{}) {
	h := fmt.Sprintf("%x", digest)
	c.transcript = append(c.transcript, fmt.Sprintf("%d %s", c.curIndex, h))
	if exp, ok := c.Params["expect"]; ok && c.Only >= 0 && exp != h {
		c.Violation(c.Params["key"], "output digest differs from the one recorded for the reference configuration", describe())
	}
}

// OutPath is the result file path (workers may write side files next to it).
func (c *Ctx) OutPath() string { return c.out }

// NotExhaustive marks the run as capped.
func (c *Ctx) NotExhaustive(why string) {
	c.res.Exhaustive = false
	c.Note("not exhaustive: %s", why)
}

// DeadlineHit reports whether the internal deadline fired.
func (c *Ctx) DeadlineHit() bool { return c.res.DeadlineHit }

// Finish writes the result file (and the key file next to it).
func (c *Ctx) Finish() {
	c.finished = true
	c.res.Cases = c.idx
	c.res.Completed = true
	c.res.WallS = time.Since(c.start).Seconds()
	if c.out == "" {
		b, _ := json.Marshal(c.res)
		fmt.Println(string(b))
		return
	}
	b, err := json.Marshal(c.res)
	if err != nil {
		panic(err)
	}
	if err := ioutil.WriteFile(c.out, b, 0644); err != nil {
		panic(err)
	}
	if len(c.transcript) > 0 {
		if err := ioutil.WriteFile(c.out+".transcript", []byte(strings.Join(c.transcript, "\n")+"\n"), 0644); err != nil {
			panic(err)
		}
	}
	ks := make([]uint64, 0, len(c.keys))
	for k := range c.keys {
		ks = append(ks, k)
	}
	sort.Slice(ks, func(i, j int) bool { return ks[i] < ks[j] })
	kb := make([]byte, 8*len(ks))
	for i, k := range ks {
		binary.LittleEndian.PutUint64(kb[8*i:], k)
	}
	if err := ioutil.WriteFile(c.out+".keys", kb, 0644); err != nil {
		panic(err)
	}
}

// Jobs is the registry filled by harness files' init functions.
var Jobs = map[string]func(*Ctx){}

// Register adds a job.
func Register(name string, f func(*Ctx)) {
	if _, dup := Jobs[name]; dup {
		panic("duplicate job " + name)
	}
	Jobs[name] = f
}

// Main runs the selected job; called from TestVerif in each harness package.
func Main() (ran bool, err error) {
	if childMain() {
		return true, nil
	}
	c := Start()
	if c.Job == "" {
		return false, nil
	}
	f, ok := Jobs[c.Job]
	if !ok {
		return false, fmt.Errorf("unknown job %q", c.Job)
	}
	func() {
		defer func() {
			if r := recover(); r != nil {
				where, inCUT := panicSite(string(debug.Stack()))
				if rf, ok := r.(Refused); ok {
					// a helper that prepares inputs through the library was refused a call every
					// property requires to succeed: that is the library's doing, not the harness's
					c.res.Exhaustive = false
					c.Violation(fmt.Sprintf("%s legal call refused: %s", c.Job, rf.What), fmt.Sprintf("case %d: %s returned %v; stage %q", c.curIndex, rf.What, rf.Err, c.stage), map[string]interface{}{"call": rf.What, "error": fmt.Sprint(rf.Err)})
				} else if inCUT {
					// the code under test panicked on an input the harness considers ordinary
					c.res.Exhaustive = false
					c.Violation(fmt.Sprintf("%s panic in code under test at %s", c.Job, where), fmt.Sprintf("case %d: panic in the code under test: %v (at %s); stage %q", c.curIndex, r, where, c.stage), map[string]interface{}{"panic": fmt.Sprint(r), "site": where})
				} else {
					c.Fail("harness panic: %v at %s", r, where)
				}
			}
		}()
		f(c)
	}()
	c.Finish()
	return true, nil
}

// Refused is the panic value of harness helpers that obtain inputs from the library (signing an
// honest message under legal options) when the library refuses: reported as a violation.
type Refused struct {
	What string
	Err  error
}

// panicSite finds the frame that raised the panic and says whether it belongs to the code under
// test (a repository source file) rather than to harness / model / runtime code.
func panicSite(stack string) (string, bool) {
	lines := strings.Split(stack, "\n")
	seenPanic := false
	first := ""
	for i := 0; i+1 < len(lines); i++ {
		ln := lines[i]
		if strings.HasPrefix(ln, "panic(") {
			seenPanic = true
			continue
		}
		if !seenPanic || strings.HasPrefix(ln, "\t") {
			continue
		}
		loc := strings.TrimSpace(lines[i+1])
		if strings.HasPrefix(ln, "runtime.") || strings.HasPrefix(ln, "runtime/") {
			continue
		}
		if j := strings.Index(loc, " +0x"); j >= 0 {
			loc = loc[:j]
		}
		if !strings.Contains(ln, "oasisprotocol/ed25519") {
			// a frame of the standard library or of a dependency: whoever called it is responsible
			// (a library function handing an unchecked argument to crypto.Hash.Size, say)
			if first == "" {
				first = loc
			}
			continue
		}
		harness := strings.Contains(loc, "zz_verif") || strings.Contains(loc, "zzverif") || strings.Contains(loc, "/verif/")
		if first != "" {
			loc = loc + " (raised in " + first + ")"
		}
		return loc, !harness
	}
	if first != "" {
		return first, false
	}
	return "unknown", false
}

// Rng is a small deterministic generator (xorshift64*) for alphabet members that are "DRBG
// streams"; seeded from VERIF_SEED and a label, so every run enumerates the same inputs.
type Rng struct{ s uint64 }

// NewRng derives a generator from the seed and a label.
func NewRng(seed int64, label string) *Rng {
	h := fnv.New64a()
	h.Write([]byte(label))
	s := h.Sum64() ^ (uint64(seed) * 0x9e3779b97f4a7c15)
	if s == 0 {
		s = 1
	}
	return &Rng{s}
}

// Uint64 returns the next value.
func (r *Rng) Uint64() uint64 {
	r.s ^= r.s >> 12
	r.s ^= r.s << 25
	r.s ^= r.s >> 27
	return r.s * 2685821657736338717
}

// Read fills p (never fails): usable as an entropy io.Reader.
func (r *Rng) Read(p []byte) (int, error) {
	for i := range p {
		if i%8 == 0 {
			v := r.Uint64()
			for j := 0; j < 8 && i+j < len(p); j++ {
				p[i+j] = byte(v >> (8 * uint(j)))
			}
		}
	}
	return len(p), nil
}

// Intn returns a value in [0, n).
func (r *Rng) Intn(n int) int { return int(r.Uint64() % uint64(n)) }

// EnumDev calls f(level, v) for every vector v over the product of sizes with at most bound
// non-zero coordinates, level by level (0 deviations first), each vector exactly once.
// Coordinate value 0 is the default of its dimension. v is reused between calls.
func EnumDev(sizes []int, bound int, f func(level int, v []int)) {
	n := len(sizes)
	if bound > n {
		bound = n
	}
	v := make([]int, n)
	var rec func(level, start, left int)
	rec = func(level, start, left int) {
		if left == 0 {
			f(level, v)
			return
		}
		for p := start; p <= n-left; p++ {
			for x := 1; x < sizes[p]; x++ {
				v[p] = x
				rec(level, p+1, left-1)
			}
			v[p] = 0
		}
	}
	for lvl := 0; lvl <= bound; lvl++ {
		rec(lvl, 0, lvl)
	}
}

// CountDev returns the number of vectors EnumDev visits.
func CountDev(sizes []int, bound int) int64 {
	var n int64
	EnumDev(sizes, bound, func(int, []int) { n++ })
	return n
}
