#!/bin/sh
# check.sh <Cxx> <quick|thorough>: rebuilds the driver if needed, then runs the check.
cd "$(dirname "$0")"
export GOFLAGS=-mod=mod GOPROXY=off GOSUMDB=off GOTOOLCHAIN=local
[ -x bin/vcheck ] || { mkdir -p bin; go build -o bin/vcheck ./cmd/vcheck || exit 2; }
exec ./bin/vcheck run "$1" --tier "${2:-quick}"
