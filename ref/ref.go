// Package ref is the reference model used by every check: Ed25519 / X25519 arithmetic over
// math/big, transcribed from the property statements and RFC 8032 / RFC 7748. It is deliberately
// boring: affine-law projective addition (add-2008-bbjlp, a transliteration of the affine
// twisted Edwards law), computed constants, no tables copied from the implementation.
//
// The same directory is mounted into the library module as .../internal/zzverifref by overlay so
// that in-package harnesses can import it. Stdlib only; must compile with -lang=go1.12.
package ref

import (
	"crypto/sha512"
	"math/big"
)

var (
	P      *big.Int // 2^255 - 19
	L      *big.Int // group order
	D      *big.Int // -121665/121666
	SqrtM1 *big.Int // 2^((p-1)/4)
	one    = big.NewInt(1)
	two    = big.NewInt(2)
	BaseY  *big.Int
)

func init() {
	P = new(big.Int).Sub(new(big.Int).Lsh(one, 255), big.NewInt(19))
	L, _ = new(big.Int).SetString("7237005577332262213973186563042994240857116359379907606001950938285454250989", 10)
	// d = -121665/121666 mod p
	inv := new(big.Int).ModInverse(big.NewInt(121666), P)
	D = new(big.Int).Mul(big.NewInt(-121665), inv)
	D.Mod(D, P)
	e := new(big.Int).Sub(P, one)
	e.Rsh(e, 2)
	SqrtM1 = new(big.Int).Exp(two, e, P)
	// base point: y = 4/5, x even
	BaseY = new(big.Int).Mul(big.NewInt(4), new(big.Int).ModInverse(big.NewInt(5), P))
	BaseY.Mod(BaseY, P)
	by := ToLE(BaseY, 32)
	var ok bool
	base, ok = Decode(by)
	if !ok {
		panic("ref: base point does not decode")
	}
}

// Point is a projective twisted Edwards point (X:Y:Z), x = X/Z, y = Y/Z.
type Point struct{ X, Y, Z *big.Int }

func mod(x *big.Int) *big.Int { return x.Mod(x, P) }
func mul(a, b *big.Int) *big.Int {
	return mod(new(big.Int).Mul(a, b))
}
func add(a, b *big.Int) *big.Int { return mod(new(big.Int).Add(a, b)) }
func sub(a, b *big.Int) *big.Int { return mod(new(big.Int).Sub(a, b)) }

// Identity returns (0, 1).
func Identity() Point { return Point{big.NewInt(0), big.NewInt(1), big.NewInt(1)} }

// FromAffine builds a point from affine coordinates (no curve check).
func FromAffine(x, y *big.Int) Point {
	return Point{new(big.Int).Set(x), new(big.Int).Set(y), big.NewInt(1)}
}

// Add is the complete unified addition law of -x^2 + y^2 = 1 + d x^2 y^2.
func (p Point) Add(q Point) Point {
	a := mul(p.Z, q.Z)
	b := mul(a, a)
	c := mul(p.X, q.X)
	d := mul(p.Y, q.Y)
	e := mul(D, mul(c, d))
	f := sub(b, e)
	g := add(b, e)
	t := mul(add(p.X, p.Y), add(q.X, q.Y))
	t = sub(sub(t, c), d)
	x3 := mul(mul(a, f), t)
	y3 := mul(mul(a, g), add(d, c)) // a = -1: D - aC = D + C
	z3 := mul(f, g)
	return Point{x3, y3, z3}
}

// Double is Add(p, p) (the law is unified; no separate formula on purpose).
func (p Point) Double() Point { return p.Add(p) }

// Neg returns -p.
func (p Point) Neg() Point {
	return Point{sub(big.NewInt(0), p.X), new(big.Int).Set(p.Y), new(big.Int).Set(p.Z)}
}

// Sub returns p - q.
func (p Point) Sub(q Point) Point { return p.Add(q.Neg()) }

// Mul returns [k]p for any non-negative k (not reduced mod L: torsion components matter).
func (p Point) Mul(k *big.Int) Point {
	if k.Sign() < 0 {
		return p.Neg().Mul(new(big.Int).Neg(k))
	}
	// 4-bit fixed window, most significant first.
	var tab [16]Point
	tab[0] = Identity()
	for i := 1; i < 16; i++ {
		tab[i] = tab[i-1].Add(p)
	}
	r := Identity()
	n := (k.BitLen() + 3) / 4
	for i := n - 1; i >= 0; i-- {
		if i != n-1 {
			r = r.Double().Double().Double().Double()
		}
		nib := 0
		for b := 3; b >= 0; b-- {
			nib = nib<<1 | int(k.Bit(i*4+b))
		}
		if nib != 0 {
			r = r.Add(tab[nib])
		}
	}
	return r
}

// MulInt is Mul with a small integer.
func (p Point) MulInt(k int64) Point { return p.Mul(big.NewInt(k)) }

// Affine returns (x, y) fully reduced.
func (p Point) Affine() (*big.Int, *big.Int) {
	zi := new(big.Int).ModInverse(p.Z, P)
	return mul(p.X, zi), mul(p.Y, zi)
}

// Equal compares as points.
func (p Point) Equal(q Point) bool {
	return mul(p.X, q.Z).Cmp(mul(q.X, p.Z)) == 0 && mul(p.Y, q.Z).Cmp(mul(q.Y, p.Z)) == 0
}

// IsIdentity reports whether p is (0, 1).
func (p Point) IsIdentity() bool {
	return mod(new(big.Int).Set(p.X)).Sign() == 0 && sub(p.Y, p.Z).Sign() == 0
}

// OnCurve checks the curve equation (projective form).
func (p Point) OnCurve() bool {
	x, y := p.Affine()
	x2, y2 := mul(x, x), mul(y, y)
	lhs := sub(y2, x2)
	rhs := add(one, mul(D, mul(x2, y2)))
	return lhs.Cmp(rhs) == 0
}

// IsSmallOrder reports [8]p == identity.
func (p Point) IsSmallOrder() bool { return p.MulInt(8).IsIdentity() }

// Order returns the order of a torsion point (1, 2, 4, 8) or 0 if [8]p != identity.
func (p Point) Order() int {
	for _, o := range []int64{1, 2, 4, 8} {
		if p.MulInt(o).IsIdentity() {
			return int(o)
		}
	}
	return 0
}

// LE decodes a little-endian integer.
func LE(b []byte) *big.Int {
	r := make([]byte, len(b))
	for i := range b {
		r[len(b)-1-i] = b[i]
	}
	return new(big.Int).SetBytes(r)
}

// ToLE encodes x as n little-endian bytes (x must fit).
func ToLE(x *big.Int, n int) []byte {
	b := x.Bytes()
	if len(b) > n {
		panic("ref.ToLE: value does not fit")
	}
	r := make([]byte, n)
	for i := range b {
		r[i] = b[len(b)-1-i]
	}
	return r
}

// Decode implements the lenient decoding rule of C10: y = low 255 bits mod p,
// x^2 = (y^2-1)/(d y^2+1); square test by Euler's criterion; sign from bit 255; when x = 0
// either sign bit is accepted.
func Decode(s []byte) (Point, bool) {
	if len(s) != 32 {
		return Point{}, false
	}
	y := LE(s)
	sign := y.Bit(255)
	y.SetBit(y, 255, 0)
	y.Mod(y, P)
	y2 := mul(y, y)
	num := sub(y2, one)
	den := add(mul(D, y2), one)
	// den is never zero: -1/d is not a square.
	x2 := mul(num, new(big.Int).ModInverse(den, P))
	if x2.Sign() == 0 {
		return Point{big.NewInt(0), y, big.NewInt(1)}, true
	}
	// Euler criterion
	e := new(big.Int).Rsh(new(big.Int).Sub(P, one), 1)
	if new(big.Int).Exp(x2, e, P).Cmp(one) != 0 {
		return Point{}, false
	}
	x := new(big.Int).ModSqrt(x2, P)
	if x == nil {
		return Point{}, false
	}
	if x.Bit(0) != sign {
		x.Sub(P, x)
	}
	return Point{x, y, big.NewInt(1)}, true
}

// Encode returns the canonical 32-byte encoding.
func (p Point) Encode() []byte {
	x, y := p.Affine()
	b := ToLE(y, 32)
	b[31] |= byte(x.Bit(0)) << 7
	return b
}

// Encodings returns every 32-byte string that Decode maps to p: canonical first, then
// (in order) sign-flipped when x = 0, y + p when y < 19, both.
func Encodings(p Point) [][]byte {
	x, y := p.Affine()
	var out [][]byte
	ys := []*big.Int{y}
	if y.Cmp(big.NewInt(19)) < 0 {
		ys = append(ys, new(big.Int).Add(y, P))
	}
	for _, yy := range ys {
		signs := []uint{x.Bit(0)}
		if x.Sign() == 0 {
			signs = []uint{0, 1}
		}
		for _, sg := range signs {
			b := ToLE(yy, 32)
			b[31] |= byte(sg) << 7
			out = append(out, b)
		}
	}
	return out
}

var (
	base    Point
	torsion [8]Point
	baseTab [64][16]Point // baseTab[i][j] = [j * 16^i]B
)

var (
	tabReady, torsionReady bool
)

// initTable builds the fixed-base table on first use (worker children that never need it skip the cost).
func initTable() {
	if tabReady {
		return
	}
	cur := base
	for i := 0; i < 64; i++ {
		baseTab[i][0] = Identity()
		for j := 1; j < 16; j++ {
			baseTab[i][j] = baseTab[i][j-1].Add(cur)
		}
		cur = baseTab[i][15].Add(cur)
	}
	tabReady = true
}

// initTorsion finds a generator of the 8-torsion on first use.
func initTorsion() {
	if torsionReady {
		return
	}
	// torsion: find a point whose [L] multiple has order 8
	for y := int64(2); ; y++ {
		q, ok := Decode(ToLE(big.NewInt(y), 32))
		if !ok {
			continue
		}
		t := q.Mul(L)
		if t.Order() == 8 {
			torsion[0] = Identity()
			for i := 1; i < 8; i++ {
				torsion[i] = torsion[i-1].Add(t)
			}
			break
		}
	}
	torsionReady = true
}

// Base returns B.
func Base() Point { return base }

// Torsion returns T_i = [i]T_1, T_1 of order 8 (i = 0..7).
func Torsion(i int) Point {
	initTorsion()
	return torsion[i&7]
}

// BaseMul returns [k]B for 0 <= k < 2^256.
func BaseMul(k *big.Int) Point {
	if k.Sign() < 0 || k.BitLen() > 256 {
		return base.Mul(k)
	}
	initTable()
	r := Identity()
	for i := 0; i < 64; i++ {
		nib := 0
		for b := 3; b >= 0; b-- {
			nib = nib<<1 | int(k.Bit(i*4+b))
		}
		if nib != 0 {
			r = r.Add(baseTab[i][nib])
		}
	}
	return r
}

// Variant selects the RFC 8032 flavour.
type Variant int

const (
	Pure Variant = iota
	Ctx
	Ph
)

func (v Variant) String() string { return [...]string{"pure", "ctx", "ph"}[v] }

// Dom2 returns the dom2 prefix for the variant ("" for pure).
func Dom2(v Variant, ctx []byte) []byte {
	if v == Pure {
		return nil
	}
	out := []byte("SigEd25519 no Ed25519 collisions")
	flag := byte(0)
	if v == Ph {
		flag = 1
	}
	out = append(out, flag, byte(len(ctx)))
	return append(out, ctx...)
}

// HashModL returns SHA-512(parts...) as integer mod L.
func HashModL(parts ...[]byte) *big.Int {
	h := sha512.New()
	for _, p := range parts {
		h.Write(p)
	}
	x := LE(h.Sum(nil))
	return x.Mod(x, L)
}

// Cause says why verification rejected (or "accept").
type Cause string

const (
	Accept        Cause = "accept"
	BadLen        Cause = "len"
	SNotMinimal   Cause = "S>=L"
	AUndecodable  Cause = "A-undecodable"
	ASmall        Cause = "A-small"
	RUndecodable  Cause = "R-undecodable"
	RSmall        Cause = "R-small"
	Equation      Cause = "equation"
	BadKeyLen     Cause = "keylen"
	BadDigestLen  Cause = "digestlen"
	BadContextLen Cause = "ctxlen"
)

// Verify is the predicate of C01 (zip215 = false) / C05 (zip215 = true) on raw bytes.
// The key must be 32 bytes (else BadKeyLen).
func Verify(key, msg, sig []byte, v Variant, ctx []byte, zip215 bool) (bool, Cause) {
	if len(key) != 32 {
		return false, BadKeyLen
	}
	if len(sig) != 64 {
		return false, BadLen
	}
	S := LE(sig[32:])
	if S.Cmp(L) >= 0 {
		return false, SNotMinimal
	}
	A, ok := Decode(key)
	if !ok {
		return false, AUndecodable
	}
	R, ok := Decode(sig[:32])
	if !ok {
		return false, RUndecodable
	}
	if !zip215 {
		if A.IsSmallOrder() {
			return false, ASmall
		}
		if R.IsSmallOrder() {
			return false, RSmall
		}
	}
	h := HashModL(Dom2(v, ctx), sig[:32], key, msg)
	q := BaseMul(S).Sub(A.Mul(h)).Sub(R)
	if !q.MulInt(8).IsIdentity() {
		return false, Equation
	}
	return true, Accept
}

// ExpandSeed returns the clamped secret scalar and the prefix.
func ExpandSeed(seed []byte) (*big.Int, []byte) {
	h := sha512.Sum512(seed)
	h[0] &= 248
	h[31] &= 127
	h[31] |= 64
	return LE(h[:32]), append([]byte{}, h[32:]...)
}

// Public is RFC 8032 5.1.5.
func Public(seed []byte) []byte {
	a, _ := ExpandSeed(seed)
	return BaseMul(a).Encode()
}

// Sign is RFC 8032 5.1.6 (with dom2 for ctx / ph).
func Sign(seed, msg []byte, v Variant, ctx []byte) []byte {
	a, prefix := ExpandSeed(seed)
	A := BaseMul(a).Encode()
	dom := Dom2(v, ctx)
	r := HashModL(dom, prefix, msg)
	R := BaseMul(r).Encode()
	h := HashModL(dom, R, A, msg)
	S := new(big.Int).Mul(h, a)
	S.Add(S, r)
	S.Mod(S, L)
	return append(R, ToLE(S, 32)...)
}

// X25519 is the RFC 7748 section 5 function (Montgomery ladder on u only).
func X25519(scalar, u []byte) []byte {
	k := append([]byte{}, scalar...)
	k[0] &= 248
	k[31] &= 127
	k[31] |= 64
	uu := LE(u)
	uu.SetBit(uu, 255, 0)
	return ToLE(Ladder(LE(k), uu), 32)
}

// TwistSubgroupOrder is the prime order of the large subgroup of the quadratic twist
// (the twist has 2(p+1) - 8L = 4 * TwistSubgroupOrder points).
func TwistSubgroupOrder() *big.Int {
	n := new(big.Int).Add(P, big.NewInt(1))
	n.Lsh(n, 1)
	n.Sub(n, new(big.Int).Lsh(L, 3))
	return n.Rsh(n, 2)
}

// Ladder is the raw Montgomery ladder: the u coordinate of [k]P for any integer 0 <= k < 2^256,
// without clamping (0 stands for the point at infinity).
func Ladder(kk, uu *big.Int) *big.Int {
	x2, z2 := LadderXZ(kk, uu)
	e := new(big.Int).Sub(P, two)
	return mul(x2, new(big.Int).Exp(z2, e, P))
}

// LadderXZ returns the projective result (X : Z) of the raw ladder; Z = 0 exactly for the point
// at infinity (u = 0 with Z != 0 is the point of order two).
func LadderXZ(kk, uu *big.Int) (*big.Int, *big.Int) {
	uu = new(big.Int).Mod(uu, P)
	a24 := big.NewInt(121665)
	x1 := uu
	x2, z2 := big.NewInt(1), big.NewInt(0)
	x3, z3 := new(big.Int).Set(uu), big.NewInt(1)
	swap := uint(0)
	for t := 255; t >= 0; t-- {
		kt := kk.Bit(t)
		swap ^= kt
		if swap == 1 {
			x2, x3 = x3, x2
			z2, z3 = z3, z2
		}
		swap = kt
		A := add(x2, z2)
		AA := mul(A, A)
		B := sub(x2, z2)
		BB := mul(B, B)
		E := sub(AA, BB)
		C := add(x3, z3)
		Dd := sub(x3, z3)
		DA := mul(Dd, A)
		CB := mul(C, B)
		x3 = add(DA, CB)
		x3 = mul(x3, x3)
		z3 = sub(DA, CB)
		z3 = mul(x1, mul(z3, z3))
		x2 = mul(AA, BB)
		z2 = mul(E, add(AA, mul(a24, E)))
	}
	if swap == 1 {
		x2, x3 = x3, x2
		z2, z3 = z3, z2
	}
	return x2, z2
}

// EdToMontU returns (1+y)/(1-y) mod p as 32 canonical bytes; 0 when y = 1.
func EdToMontU(y *big.Int) []byte {
	den := sub(one, y)
	if den.Sign() == 0 {
		return make([]byte, 32)
	}
	return ToLE(mul(add(one, y), new(big.Int).ModInverse(den, P)), 32)
}

// YOf returns the y coordinate denoted by a 32-byte string (low 255 bits mod p).
func YOf(s []byte) *big.Int {
	y := LE(s)
	y.SetBit(y, 255, 0)
	return y.Mod(y, P)
}

// Hex helpers used in evidence samples.
func Hex(b []byte) string {
	const d = "0123456789abcdef"
	o := make([]byte, 2*len(b))
	for i, c := range b {
		o[2*i] = d[c>>4]
		o[2*i+1] = d[c&15]
	}
	return string(o)
}
