package ref

import (
	"bytes"
	"crypto/ecdh"
	stded "crypto/ed25519"
	"crypto/sha512"
	"encoding/hex"
	"math/big"
	"testing"
)

func unhex(s string) []byte { b, _ := hex.DecodeString(s); return b }

func TestModelSelfTest(t *testing.T) {
	// group structure
	if !Base().OnCurve() || !Base().Mul(L).IsIdentity() || Base().IsSmallOrder() {
		t.Fatal("base point")
	}
	seen := map[string]bool{}
	nenc := 0
	orders := map[int]int{}
	for i := 0; i < 8; i++ {
		T := Torsion(i)
		if !T.OnCurve() || !T.IsSmallOrder() {
			t.Fatal("torsion", i)
		}
		seen[string(T.Encode())] = true
		orders[T.Order()]++
		for j := 0; j < 8; j++ {
			if !T.Add(Torsion(j)).Equal(Torsion((i + j) % 8)) {
				t.Fatal("torsion group law", i, j)
			}
		}
		for _, e := range Encodings(T) {
			nenc++
			q, ok := Decode(e)
			if !ok || !q.Equal(T) {
				t.Fatal("encodings", i)
			}
		}
	}
	if len(seen) != 8 || nenc != 14 || orders[1] != 1 || orders[2] != 1 || orders[4] != 2 || orders[8] != 4 {
		t.Fatal("torsion set", len(seen), nenc, orders)
	}
	// RFC 8032 7.1 test 1..3, 7.2 (ctx), 7.3 (ph)
	type vec struct {
		seed, pub, msg, sig string
		v                   Variant
		ctx                 string
	}
	vecs := []vec{
		{"9d61b19deffd5a60ba844af492ec2cc44449c5697b326919703bac031cae7f60", "d75a980182b10ab7d54bfed3c964073a0ee172f3daa62325af021a68f707511a", "", "e5564300c360ac729086e2cc806e828a84877f1eb8e5d974d873e065224901555fb8821590a33bacc61e39701cf9b46bd25bf5f0595bbe24655141438e7a100b", Pure, ""},
		{"4ccd089b28ff96da9db6c346ec114e0f5b8a319f35aba624da8cf6ed4fb8a6fb", "3d4017c3e843895a92b70aa74d1b7ebc9c982ccf2ec4968cc0cd55f12af4660c", "72", "92a009a9f0d4cab8720e820b5f642540a2b27b5416503f8fb3762223ebdb69da085ac1e43e15996e458f3613d0f11d8c387b2eaeb4302aeeb00d291612bb0c00", Pure, ""},
		{"c5aa8df43f9f837bedb7442f31dcb7b166d38535076f094b85ce3a2e0b4458f7", "fc51cd8e6218a1a38da47ed00230f0580816ed13ba3303ac5deb911548908025", "af82", "6291d657deec24024827e69c3abe01a30ce548a284743a445e3680d7db5ac3ac18ff9b538d16f290ae67f760984dc6594a7c15e9716ed28dc027beceea1ec40a", Pure, ""},
		{"0305334e381af78f141cb666f6199f57bc3495335a256a95bd2a55bf546663f6", "dfc9425e4f968f7f0c29f0259cf5f9aed6851c2bb4ad8bfb860cfee0ab248292", "f726936d19c800494e3fdaff20b276a8", "55a4cc2f70a54e04288c5f4cd1e45a7bb520b36292911876cada7323198dd87a8b36950b95130022907a7fb7c4e9b2d5f6cca685a587b4b21f4b888e4e7edb0d", Ctx, "666f6f"},
		{"833fe62409237b9d62ec77587520911e9a759cec1d19755b7da901b96dca3d42", "ec172b93ad5e563bf4932c70e1245034c35467ef2efd4d64ebf819683467e2bf", "616263", "98a70222f0b8121aa9d30f813d683f809e462b469c7ff87639499bb94e6dae4131f85042463c2a355a2003d062adf5aaa10b8c61e636062aaad11c2a26083406", Ph, ""},
	}
	for i, v := range vecs {
		seed, msg := unhex(v.seed), unhex(v.msg)
		if v.v == Ph {
			d := sha512.Sum512(msg)
			msg = d[:]
		}
		if !bytes.Equal(Public(seed), unhex(v.pub)) {
			t.Fatal("rfc pub", i)
		}
		sig := Sign(seed, msg, v.v, unhex(v.ctx))
		if !bytes.Equal(sig, unhex(v.sig)) {
			t.Fatal("rfc sig", i)
		}
		for _, z := range []bool{false, true} {
			if ok, c := Verify(unhex(v.pub), msg, sig, v.v, unhex(v.ctx), z); !ok {
				t.Fatal("rfc verify", i, c)
			}
		}
		sig[0] ^= 1
		if ok, _ := Verify(unhex(v.pub), msg, sig, v.v, unhex(v.ctx), false); ok {
			t.Fatal("rfc verify accepts corrupt", i)
		}
	}
	// toolchain crypto/ed25519 on a seed alphabet
	for i := 0; i < 24; i++ {
		seed := make([]byte, 32)
		seed[0], seed[1] = byte(i), byte(i>>8)
		if i == 23 {
			for j := range seed {
				seed[j] = 0xff
			}
		}
		k := stded.NewKeyFromSeed(seed)
		if !bytes.Equal(Public(seed), k[32:]) {
			t.Fatal("std pub", i)
		}
		msg := bytes.Repeat([]byte{byte(i)}, i*7)
		if !bytes.Equal(Sign(seed, msg, Pure, nil), stded.Sign(k, msg)) {
			t.Fatal("std sign", i)
		}
		d := sha512.Sum512(msg)
		s2, _ := k.Sign(nil, d[:], &stded.Options{Hash: 7, Context: "ctx"}) // crypto.SHA512 == 7
		if !bytes.Equal(Sign(seed, d[:], Ph, []byte("ctx")), s2) {
			t.Fatal("std sign ph", i)
		}
		s3, _ := k.Sign(nil, msg, &stded.Options{Context: "c"})
		if !bytes.Equal(Sign(seed, msg, Ctx, []byte("c")), s3) {
			t.Fatal("std sign ctx", i)
		}
	}
	// RFC 7748 5.2
	out := X25519(unhex("a546e36bf0527c9d3b16154b82465edd62144c0ac1fc5a18506a2244ba449ac4"), unhex("e6db6867583030db3594c1a424b15f7c726624ec26b3353b10a903a6d0ab1c4c"))
	if hex.EncodeToString(out) != "c3da55379de9c6908e94ea4df28d084f32eccf03491c71f754b4075577a28552" {
		t.Fatal("rfc7748 v1")
	}
	out = X25519(unhex("4b66e9d4d1b4673c5ad22691957d6af5c11b6421e0ea01d42ca4169e7918ba0d"), unhex("e5210f12786811d3f4b7959d0538ae2c31dbe7106fc03c3efc4cd549c715a493"))
	if hex.EncodeToString(out) != "95cbde9476e8907d7aade45cb4b873f88b595a68799fa152e6f8f7647aac7957" {
		t.Fatal("rfc7748 v2")
	}
	k, u := make([]byte, 32), make([]byte, 32)
	k[0], u[0] = 9, 9
	for i := 0; i < 1000; i++ {
		r := X25519(k, u)
		u, k = k, r
		if i == 0 && hex.EncodeToString(k) != "422c8e7a6227d7bca1350b3e2bb7279f7897b87bb6854b783c60e80311ae3079" {
			t.Fatal("rfc7748 iter 1")
		}
	}
	if hex.EncodeToString(k) != "684cf59ba83309552800ef566f2f4d3c1c3887c49360e3875f2eb94d99532c51" {
		t.Fatal("rfc7748 iter 1000")
	}
	// crypto/ecdh
	for i := 0; i < 16; i++ {
		sc := sha512.Sum512([]byte{byte(i)})
		priv, err := ecdh.X25519().NewPrivateKey(sc[:32])
		if err != nil {
			t.Fatal(err)
		}
		nine := make([]byte, 32)
		nine[0] = 9
		if !bytes.Equal(priv.PublicKey().Bytes(), X25519(sc[:32], nine)) {
			t.Fatal("ecdh base", i)
		}
		pub, _ := ecdh.X25519().NewPublicKey(sc[32:])
		sh, err := priv.ECDH(pub)
		if err == nil && !bytes.Equal(sh, X25519(sc[:32], sc[32:])) {
			t.Fatal("ecdh generic", i)
		}
		// Edwards -> Montgomery agrees with ladder on base multiples
		a := LE(sc[:32])
		a.Mod(a, L)
		_, y := BaseMul(a).Affine()
		_ = y
	}
	// BaseMul agrees with generic Mul, including k >= L
	for _, k := range []*big.Int{big.NewInt(0), big.NewInt(1), new(big.Int).Sub(L, one), L, new(big.Int).Add(L, one), new(big.Int).Sub(new(big.Int).Lsh(one, 256), one)} {
		if !BaseMul(k).Equal(Base().Mul(k)) {
			t.Fatal("BaseMul", k)
		}
	}
}
