package modm

import (
	"crypto/sha256"
	"fmt"
	"math/big"

	ref "github.com/oasisprotocol/ed25519/internal/zzverifref"
	rt "github.com/oasisprotocol/ed25519/internal/zzverifrt"
)

func init() { rt.Register("C08m", jobC08m) }

// jobC08m: layout-independent transcript of the scalar layer (inputs and outputs are byte strings /
// digit vectors), compared across build configurations by the driver. Only operations whose
// inputs the API feeds directly (S, X25519 scalars) or from SHA-512 outputs (h, r, a) are recorded.
func jobC08m(c *rt.Ctx) {
	c.Require("expand", "addmul", "recode")
	emit := func(class string, desc func() map[string]interface{}, parts ...[]byte) {
		h := sha256.New()
		for _, p := range parts {
			h.Write([]byte{byte(len(p)), byte(len(p) >> 8)})
			h.Write(p)
		}
		c.Step(1)
		c.Class(class)
		c.Distinct(fmt.Sprintf("%s %d", class, c.Index()), true)
		c.Transcript(h.Sum(nil), desc)
		if c.WantSample() {
			s := desc()
			s["class"] = class
			c.Sample(s)
		}
	}
	contract := func(x *Bignum256) []byte {
		var o [32]byte
		Contract(o[:], x)
		return o[:]
	}
	L := ref.L
	// Expand on 64-byte strings k*L + delta and word-class strings, and on 32-byte boundary strings
	var ins [][]byte
	for j := uint(0); j <= 259; j++ {
		for _, dk := range []int64{-1, 0, 1} {
			k := new(big.Int).Add(new(big.Int).Lsh(big.NewInt(1), j), big.NewInt(dk))
			for _, d := range []*big.Int{big.NewInt(0), big.NewInt(1), new(big.Int).Sub(L, big.NewInt(1))} {
				x := new(big.Int).Mul(k, L)
				x.Add(x, d)
				if x.Sign() >= 0 && x.BitLen() <= 512 {
					ins = append(ins, ref.ToLE(x, 64))
				}
			}
		}
	}
	{
		vals := []uint64{0, 1, ^uint64(0)}
		idx := make([]int, 8)
		for {
			x := new(big.Int)
			for i := 7; i >= 0; i-- {
				x.Lsh(x, 64)
				x.Add(x, new(big.Int).SetUint64(vals[idx[i]]))
			}
			ins = append(ins, ref.ToLE(x, 64))
			k := 0
			for k < 8 {
				idx[k]++
				if idx[k] < 3 {
					break
				}
				idx[k] = 0
				k++
			}
			if k == 8 {
				break
			}
		}
	}
	for j := uint(0); j < 256; j++ {
		ins = append(ins, ref.ToLE(new(big.Int).Lsh(big.NewInt(1), j), 32), ref.ToLE(new(big.Int).Sub(new(big.Int).Lsh(big.NewInt(1), j+1), big.NewInt(1)), 32))
	}
	for k := int64(0); k <= 16; k++ {
		for _, d := range []int64{-1, 0, 1} {
			x := new(big.Int).Mul(big.NewInt(k), L)
			x.Add(x, big.NewInt(d))
			if x.Sign() >= 0 && x.BitLen() <= 256 {
				ins = append(ins, ref.ToLE(x, 32))
			}
		}
	}
	for _, b := range ins {
		if !c.Take() {
			continue
		}
		var x Bignum256
		Expand(&x, b)
		bb := b
		emit("expand", func() map[string]interface{} {
			return map[string]interface{}{"input": ref.Hex(bb), "output": ref.Hex(contract(&x))}
		}, contract(&x))
	}
	// constructed remainders: q*L + r for remainders r = rho mod L (preResults: rho with limbs - in EITHER layout - each 0, 1
	// or all ones), under several quotients, as 64-byte and 32-byte strings (one transcript entry per r)
	c.Require("expand-remainder")
	rems := preResults()
	q64 := []*big.Int{big.NewInt(1), big.NewInt(3), big.NewInt(15), badd(pow2(128), 1), badd(pow2(250), 12345), badd(pow2(259), -1)}
	for _, r := range rems {
		if !c.Take() {
			continue
		}
		h := sha256.New()
		for qi, q := range q64 {
			x := new(big.Int).Mul(q, L)
			x.Add(x, r)
			var y Bignum256
			Expand(&y, ref.ToLE(x, 64))
			h.Write(contract(&y))
			if qi < 3 && x.BitLen() <= 256 {
				Expand(&y, ref.ToLE(x, 32))
				h.Write(contract(&y))
			}
		}
		rr := r
		emit("expand-remainder", func() map[string]interface{} {
			return map[string]interface{}{"remainder": rr.String(), "quotients": len(q64)}
		}, h.Sum(nil))
	}
	// Add / Mul on all ordered pairs of the boundary alphabet
	As := alphaAsFixed()
	lim := make([]Bignum256, len(As))
	for i, a := range As {
		lim[i] = fromInt(a)
	}
	for i := range As {
		if !c.Take() {
			continue
		}
		h := sha256.New()
		for j := range As {
			var r, m Bignum256
			Add(&r, &lim[i], &lim[j])
			Mul(&m, &lim[i], &lim[j])
			h.Write(contract(&r))
			h.Write(contract(&m))
		}
		ii := i
		emit("addmul", func() map[string]interface{} {
			return map[string]interface{}{"a": As[ii].String(), "partners": len(As)}
		}, h.Sum(nil))
	}
	// recodings: digit vectors are layout-independent
	for _, s := range nibScalars(c.Thorough()) {
		if !c.Take() {
			continue
		}
		b := append([]byte{}, s...)
		b[31] &= 0x7f
		var x Bignum256
		ExpandRaw(&x, b)
		var w4 [64]int8
		ContractWindow4(&w4, &x)
		var y Bignum256
		Expand(&y, s)
		var s5, s7 [256]int8
		ContractSlidingWindow(&s5, &y, 5)
		ContractSlidingWindow(&s7, &y, 7)
		d := make([]byte, 0, 64+512)
		for _, v := range w4 {
			d = append(d, byte(v))
		}
		for _, v := range s5 {
			d = append(d, byte(v))
		}
		for _, v := range s7 {
			d = append(d, byte(v))
		}
		ss := s
		emit("recode", func() map[string]interface{} { return map[string]interface{}{"scalar": ref.Hex(ss)} }, d)
	}
}

// alphaAsFixed is a layout-INDEPENDENT scalar alphabet (the same values in every build
// configuration): powers of two and their predecessors, the limb boundaries of both layouts, values
// around L and (L+-1)/2, word-class values.
func alphaAsFixed() []*big.Int {
	var out []*big.Int
	seen := map[string]bool{}
	add := func(x *big.Int) {
		if x.Sign() < 0 || x.Cmp(ref.L) >= 0 || seen[x.String()] {
			return
		}
		seen[x.String()] = true
		out = append(out, x)
	}
	L := ref.L
	for _, x := range []*big.Int{big.NewInt(0), big.NewInt(1), big.NewInt(2), badd(L, -1), badd(L, -2), new(big.Int).Rsh(badd(L, 1), 1), new(big.Int).Rsh(badd(L, -1), 1)} {
		add(x)
	}
	for j := uint(1); j <= 252; j += 3 {
		add(pow2(j))
		add(badd(pow2(j), -1))
	}
	for _, w := range []uint{56, 30} {
		for j := w; j <= 252; j += w {
			add(pow2(j))
			add(badd(pow2(j), -1))
			add(badd(pow2(j), 1))
		}
	}
	vals := []uint64{0, 1, ^uint64(0)}
	for a := 0; a < 3; a++ {
		for b := 0; b < 3; b++ {
			for cc := 0; cc < 3; cc++ {
				for d := 0; d < 2; d++ {
					x := new(big.Int).SetUint64(vals[d] & 0x0fffffffffffffff)
					for _, v := range []uint64{vals[cc], vals[b], vals[a]} {
						x.Lsh(x, 64)
						x.Add(x, new(big.Int).SetUint64(v))
					}
					add(x)
				}
			}
		}
	}
	return out
}

// preResults: remainders r = rho mod L for structured values rho in [0, 3L): the value the reduction
// holds BEFORE its final conditional subtractions is r, r + L or r + 2L depending on the quotient
// estimate, so rho - not only r - ranges over the limb-class values of both layouts (each lower limb 0,
// 1 or all ones; the top limb around 0, L's top limb and twice that).
func preResults() []*big.Int {
	var out []*big.Int
	seen := map[string]bool{}
	for _, lay := range []struct {
		bits  uint
		limbs int
		vals  []uint64
		top   uint
	}{{56, 5, []uint64{0, 1, 1<<56 - 1}, 28}, {30, 9, []uint64{0, 1<<30 - 1}, 12}} {
		t := uint64(1) << lay.top
		tops := []uint64{0, 1, t - 1, t, t + 1, 2*t - 1, 2 * t, 2*t + 1, 3*t - 1}
		idx := make([]int, lay.limbs-1)
		for {
			for _, tv := range tops {
				x := new(big.Int).SetUint64(tv)
				for i := lay.limbs - 2; i >= 0; i-- {
					x.Lsh(x, lay.bits)
					x.Add(x, new(big.Int).SetUint64(lay.vals[idx[i]]))
				}
				x.Mod(x, ref.L)
				if !seen[x.String()] {
					seen[x.String()] = true
					out = append(out, x)
				}
			}
			k := 0
			for k < len(idx) {
				idx[k]++
				if idx[k] < len(lay.vals) {
					break
				}
				idx[k] = 0
				k++
			}
			if k == len(idx) {
				break
			}
		}
	}
	return out
}
