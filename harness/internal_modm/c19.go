package modm

// C19: scalar arithmetic mod L and the recodings, on the limb layout selected by the build.

import (
	"bytes"
	"fmt"
	"math/big"
	"testing"

	ref "github.com/oasisprotocol/ed25519/internal/zzverifref"
	rt "github.com/oasisprotocol/ed25519/internal/zzverifrt"
)

func TestVerif(t *testing.T) {
	ran, err := rt.Main()
	if err != nil {
		t.Fatal(err)
	}
	if !ran {
		t.Skip("no VERIF_JOB")
	}
}

func init() { rt.Register("C19", jobC19) }

func pow2(n uint) *big.Int { return new(big.Int).Lsh(big.NewInt(1), n) }
func badd(a *big.Int, k int64) *big.Int {
	return new(big.Int).Add(a, big.NewInt(k))
}

func valueOf(x *Bignum256) *big.Int {
	v := new(big.Int)
	for i := LimbSize - 1; i >= 0; i-- {
		v.Lsh(v, BitsPerLimb)
		v.Add(v, new(big.Int).SetUint64(uint64(x[i])))
	}
	return v
}

// canonical: every limb below 2^BitsPerLimb and the value below L
func canonical(x *Bignum256) bool {
	for i := 0; i < LimbSize; i++ {
		if uint64(x[i]) >= uint64(1)<<BitsPerLimb {
			return false
		}
	}
	return valueOf(x).Cmp(ref.L) < 0
}

func limbsStr(x *Bignum256) string {
	var l []uint64
	for i := 0; i < LimbSize; i++ {
		l = append(l, uint64(x[i]))
	}
	return fmt.Sprint(l)
}

func fromInt(v *big.Int) Bignum256 {
	var x Bignum256
	Expand(&x, ref.ToLE(v, 32))
	return x
}

// scalar alphabet A_s (all below L)
func alphaAs(step uint) []*big.Int {
	var out []*big.Int
	seen := map[string]bool{}
	add := func(x *big.Int) {
		if x.Sign() < 0 || x.Cmp(ref.L) >= 0 || seen[x.String()] {
			return
		}
		seen[x.String()] = true
		out = append(out, x)
	}
	L := ref.L
	for _, x := range []*big.Int{big.NewInt(0), big.NewInt(1), big.NewInt(2), badd(L, -1), badd(L, -2), new(big.Int).Rsh(badd(L, 1), 1), new(big.Int).Rsh(badd(L, -1), 1)} {
		add(x)
	}
	for j := uint(1); j <= 252; j += step {
		add(pow2(j))
		add(badd(pow2(j), -1))
	}
	for _, j := range []uint{uint(BitsPerLimb), uint(2 * BitsPerLimb), uint(3 * BitsPerLimb), uint(4 * BitsPerLimb), 128, 252, 251} {
		add(pow2(j))
		add(badd(pow2(j), -1))
		add(badd(pow2(j), 1))
	}
	// limb-class values: each limb in {0, 1, max} (64-bit: 3^5; 32-bit: 2 values over 9 limbs)
	vals := []uint64{0, 1, (uint64(1) << BitsPerLimb) - 1}
	if LimbSize > 5 {
		vals = []uint64{0, (uint64(1) << BitsPerLimb) - 1}
	}
	idx := make([]int, LimbSize)
	for {
		x := new(big.Int)
		for i := LimbSize - 1; i >= 0; i-- {
			x.Lsh(x, BitsPerLimb)
			x.Add(x, new(big.Int).SetUint64(vals[idx[i]]))
		}
		add(x)
		k := 0
		for k < LimbSize {
			idx[k]++
			if idx[k] < len(vals) {
				break
			}
			idx[k] = 0
			k++
		}
		if k == LimbSize {
			break
		}
	}
	return out
}

func nibScalars(thorough bool) [][]byte {
	var out [][]byte
	set := func(b []byte, pos int, v byte) {
		if pos%2 == 0 {
			b[pos/2] = b[pos/2]&0xf0 | v
		} else {
			b[pos/2] = b[pos/2]&0x0f | v<<4
		}
	}
	fills := []byte{0, 7, 8, 9, 15}
	for pos := 0; pos < 64; pos++ {
		for v := byte(0); v < 16; v++ {
			for _, f := range fills {
				b := bytes.Repeat([]byte{f | f<<4}, 32)
				set(b, pos, v)
				out = append(out, b)
			}
		}
	}
	for _, rv := range []byte{7, 8, 9, 15} {
		for start := 0; start < 64; start++ {
			for l := 1; start+l <= 64; l++ {
				if !thorough && !(start%3 == 0 || start+l == 64) {
					continue
				}
				b := make([]byte, 32)
				for p := start; p < start+l; p++ {
					set(b, p, rv)
				}
				out = append(out, b)
			}
		}
	}
	return out
}

// sliding-window alphabets (all below 2^253)
func slidingAlphabet(thorough bool) []*big.Int {
	var out []*big.Int
	lim := pow2(253)
	add := func(x *big.Int) {
		if x.Sign() >= 0 && x.Cmp(lim) < 0 {
			out = append(out, x)
		}
	}
	istep := uint(7)
	if thorough {
		istep = 1
	}
	for d := int64(1); d < 128; d += 2 {
		for i := uint(0); i <= 252; i += istep {
			add(new(big.Int).Lsh(big.NewInt(d), i))
		}
		add(new(big.Int).Lsh(big.NewInt(d), 246))
		add(new(big.Int).Lsh(big.NewInt(d), 247))
		add(new(big.Int).Lsh(big.NewInt(d), 252))
	}
	for _, off := range []uint{0, 1, 124, 251} {
		for l := uint(1); off+l <= 253; l++ {
			if !thorough && l%3 != 1 && off+l != 253 {
				continue
			}
			add(new(big.Int).Lsh(badd(pow2(l), -1), off))
		}
	}
	// alternating and periodic patterns
	for period := uint(2); period <= 9; period++ {
		for w := uint(1); w < period; w++ {
			x := new(big.Int)
			for i := uint(0); i+w <= 253; i += period {
				x.Or(x, new(big.Int).Lsh(badd(pow2(w), -1), i))
			}
			add(x)
			add(new(big.Int).Sub(badd(lim, -1), x))
		}
	}
	add(big.NewInt(0))
	add(badd(ref.L, -1))
	add(badd(ref.L, -2))
	add(badd(lim, -1))
	return out
}

func jobC19(c *rt.Ctx) {
	c.Require("expand64", "expand32", "expand16", "expand-otherlen", "add", "mul", "window4/raw", "window4/reduced", "sliding5", "sliding7", "expandraw")
	L := ref.L
	// ---- reduction of 64-byte strings -------------------------------------------------------
	var in64 []*big.Int
	add64 := func(x *big.Int) {
		if x.Sign() >= 0 && x.BitLen() <= 512 {
			in64 = append(in64, x)
		}
	}
	var ks []*big.Int
	for _, k := range []int64{0, 1, 2} {
		ks = append(ks, big.NewInt(k))
	}
	jstep := uint(1)
	if !c.Thorough() {
		jstep = 3
	}
	for j := uint(1); j <= 259; j += jstep {
		ks = append(ks, pow2(j), badd(pow2(j), -1), badd(pow2(j), 1))
	}
	for _, e := range []uint{512, 264, 256, 253, 252} {
		q := new(big.Int).Div(pow2(e), L)
		for d := int64(-2); d <= 1; d++ {
			ks = append(ks, badd(q, d))
		}
	}
	for _, k := range ks {
		for _, d := range []*big.Int{big.NewInt(0), big.NewInt(1), big.NewInt(2), badd(L, -2), badd(L, -1)} {
			x := new(big.Int).Mul(k, L)
			add64(x.Add(x, d))
		}
	}
	for _, j := range []uint{248, 252, 253, 255, 256, 264, 504, 511} {
		add64(pow2(j))
		add64(badd(pow2(j), -1))
		add64(badd(pow2(j), 1))
	}
	add64(badd(pow2(512), -1))
	// byte-class strings: each of 8 words in {0, 1, 2^64-1}
	{
		vals := []uint64{0, 1, ^uint64(0)}
		idx := make([]int, 8)
		for {
			x := new(big.Int)
			for i := 7; i >= 0; i-- {
				x.Lsh(x, 64)
				x.Add(x, new(big.Int).SetUint64(vals[idx[i]]))
			}
			add64(x)
			k := 0
			for k < 8 {
				idx[k]++
				if idx[k] < 3 {
					break
				}
				idx[k] = 0
				k++
			}
			if k == 8 {
				break
			}
		}
	}
	checkExpand := func(class string, b []byte, wantReduce bool) {
		var x Bignum256
		in := atAlign(b)
		Expand(&x, in)
		c.Step(1)
		c.Class(class)
		v := ref.LE(b)
		want := v
		if wantReduce {
			want = new(big.Int).Mod(v, L)
		}
		got := valueOf(&x)
		ok := got.Cmp(want) == 0 && bytes.Equal(in, b)
		if wantReduce || want.Cmp(L) < 0 {
			ok = ok && canonical(&x)
		}
		if ok && want.BitLen() <= 256 {
			var out [32]byte
			Contract(out[:], &x)
			c.Step(1)
			ok = bytes.Equal(out[:], ref.ToLE(want, 32))
		}
		if !ok {
			c.Violation(fmt.Sprintf("C19 Expand len=%d", len(b)), fmt.Sprintf("Expand of a %d-byte string: limbs %s (value %s), expected %s", len(b), limbsStr(&x), got, want),
				map[string]interface{}{"input": ref.Hex(b), "limbs": limbsStr(&x), "expected": want.String(), "observed": got.String()})
		}
	}
	for _, x := range in64 {
		if !c.Take() {
			continue
		}
		b := ref.ToLE(x, 64)
		c.DistinctB(true, []byte("e64"), b)
		checkExpand("expand64", b, true)
		if c.WantSample() {
			c.Sample(map[string]interface{}{"op": "Expand(64 bytes)", "input": ref.Hex(b), "mod_L": new(big.Int).Mod(x, L).String()})
		}
	}
	// ---- 32-byte strings ------------------------------------------------------------------------
	var in32 []*big.Int
	for k := int64(0); k <= 16; k++ {
		for _, d := range []*big.Int{big.NewInt(0), big.NewInt(1), badd(L, -1), pow2(252), badd(pow2(128), 0)} {
			x := new(big.Int).Mul(big.NewInt(k), L)
			x.Add(x, d)
			if x.BitLen() <= 256 {
				in32 = append(in32, x)
			}
		}
	}
	for j := uint(0); j < 256; j++ {
		in32 = append(in32, pow2(j), badd(pow2(j+1), -1))
	}
	{
		ow := [4]uint64{0x5812631a5cf5d3ed, 0x14def9dea2f79cd6, 0, 0x1000000000000000}
		for w := 0; w < 4; w++ {
			for _, v := range []uint64{0, 1, ow[w] - 1, ow[w], ow[w] + 1, 1 << 63, ^uint64(0)} {
				ws := ow
				ws[w] = v
				x := new(big.Int)
				for i := 3; i >= 0; i-- {
					x.Lsh(x, 64)
					x.Or(x, new(big.Int).SetUint64(ws[i]))
				}
				in32 = append(in32, x)
			}
		}
	}
	for _, x := range in32 {
		if !c.Take() {
			continue
		}
		b := ref.ToLE(x, 32)
		c.DistinctB(true, []byte("e32"), b)
		checkExpand("expand32", b, true)
	}
	// ---- 16-byte strings (batch randomisers: no reduction) and other lengths -----------------
	for j := uint(0); j <= 128; j++ {
		if !c.Take() {
			continue
		}
		for _, x := range []*big.Int{badd(pow2(j), -1), pow2(j)} {
			if x.BitLen() <= 128 && x.Sign() >= 0 {
				checkExpand("expand16", ref.ToLE(x, 16), false)
			}
		}
		c.Distinct(fmt.Sprintf("e16 %d", j), true)
	}
	for _, n := range []int{0, 1, 8, 15, 17, 31, 33, 40, 48, 63} {
		if !c.Take() {
			continue
		}
		for _, fill := range []byte{0x00, 0x01, 0x80, 0xff} {
			b := bytes.Repeat([]byte{fill}, n)
			checkExpand("expand-otherlen", b, n >= 32)
		}
		c.Distinct(fmt.Sprintf("eo %d", n), true)
	}
	// ---- ExpandRaw: no reduction, exact 256-bit value ----------------------------------------
	nib := nibScalars(c.Thorough())
	for i, s := range nib {
		if !c.Take() {
			continue
		}
		var x Bignum256
		ExpandRaw(&x, s)
		c.Step(1)
		c.Class("expandraw")
		c.Distinct(fmt.Sprintf("raw %d", i), true)
		if valueOf(&x).Cmp(ref.LE(s)) != 0 {
			c.Violation("C19 ExpandRaw", fmt.Sprintf("ExpandRaw(%x) has value %s", s, valueOf(&x)), map[string]interface{}{"input": ref.Hex(s), "limbs": limbsStr(&x)})
		}
	}
	// ---- Add / Mul over all ordered pairs of A_s --------------------------------------------
	step := uint(4)
	if c.Thorough() {
		step = 1
	}
	As := alphaAs(step)
	lim := make([]Bignum256, len(As))
	for i, a := range As {
		lim[i] = fromInt(a)
		if valueOf(&lim[i]).Cmp(a) != 0 {
			c.Violation("C19 Expand len=32", "Expand of a canonical scalar changed its value", map[string]interface{}{"value": a.String()})
		}
	}
	c.Extra("A_s_size", int64(len(As)))
	for i := range As {
		if !c.Take() {
			continue
		}
		c.Distinct(fmt.Sprintf("pairs %d", i), true)
		for j := range As {
			var r Bignum256
			Add(&r, &lim[i], &lim[j])
			want := new(big.Int).Add(As[i], As[j])
			want.Mod(want, L)
			c.Step(2)
			if valueOf(&r).Cmp(want) != 0 || !canonical(&r) {
				c.Violation("C19 Add", fmt.Sprintf("Add(%s, %s) = %s (limbs %s), expected %s", As[i], As[j], valueOf(&r), limbsStr(&r), want), map[string]interface{}{"a": As[i].String(), "b": As[j].String(), "limbs": limbsStr(&r), "expected": want.String()})
			}
			var m Bignum256
			Mul(&m, &lim[i], &lim[j])
			wantm := new(big.Int).Mul(As[i], As[j])
			wantm.Mod(wantm, L)
			if valueOf(&m).Cmp(wantm) != 0 || !canonical(&m) {
				c.Violation("C19 Mul", fmt.Sprintf("Mul(%s, %s) = %s (limbs %s), expected %s", As[i], As[j], valueOf(&m), limbsStr(&m), wantm), map[string]interface{}{"a": As[i].String(), "b": As[j].String(), "limbs": limbsStr(&m), "expected": wantm.String()})
			}
		}
		// aliasing forms used by callers: Mul(&S, &S, &a), Add(&S, &S, &r), Add(&x, &x, &x)
		s := lim[i]
		o := lim[(i*17+3)%len(As)]
		Mul(&s, &s, &o)
		w := new(big.Int).Mul(As[i], As[(i*17+3)%len(As)])
		if valueOf(&s).Cmp(w.Mod(w, L)) != 0 {
			c.Violation("C19 Mul-inplace", "Mul(&s, &s, &o) wrong", map[string]interface{}{"a": As[i].String()})
		}
		// out aliasing the SECOND operand, and both operands the same variable
		s = lim[i]
		o2 := lim[(i*17+3)%len(As)]
		Mul(&s, &o2, &s)
		w = new(big.Int).Mul(As[i], As[(i*17+3)%len(As)])
		if valueOf(&s).Cmp(w.Mod(w, L)) != 0 {
			c.Violation("C19 Mul-inplace", "Mul(&s, &o, &s) wrong", map[string]interface{}{"a": As[i].String()})
		}
		s = lim[i]
		Add(&s, &o2, &s)
		w = new(big.Int).Add(As[i], As[(i*17+3)%len(As)])
		if valueOf(&s).Cmp(w.Mod(w, L)) != 0 {
			c.Violation("C19 Add-inplace", "Add(&s, &o, &s) wrong", map[string]interface{}{"a": As[i].String()})
		}
		var sq Bignum256
		s = lim[i]
		Mul(&sq, &s, &s)
		w = new(big.Int).Mul(As[i], As[i])
		if valueOf(&sq).Cmp(w.Mod(w, L)) != 0 {
			c.Violation("C19 Mul-inplace", "Mul(&r, &s, &s) wrong", map[string]interface{}{"a": As[i].String()})
		}
		s = lim[i]
		Add(&s, &s, &s)
		w = new(big.Int).Lsh(As[i], 1)
		if valueOf(&s).Cmp(w.Mod(w, L)) != 0 {
			c.Violation("C19 Add-inplace", "Add(&s, &s, &s) wrong", map[string]interface{}{"a": As[i].String()})
		}
		c.ClassN("add", len(As))
		c.ClassN("mul", len(As))
	}
	// ---- constructed RESULTS: the reduction's subtraction chain sees the remainder's limbs, whatever the
	// input looked like. Inputs q*L + r for every structured quotient q and every remainder r of the
	// scalar alphabet (each limb in {0, 1, max}, powers of two and their neighbours), as 64-byte and
	// 32-byte strings; products a * b with b = r / a mod L for every (a, r) of the alphabet
	c.Require("constructed-remainder/expand64", "constructed-remainder/expand32", "constructed-remainder/mul")
	crRems := append(append([]*big.Int{}, As...), preResults()...)
	c.Extra("constructed_remainders", int64(len(crRems)))
	for qi, q := range ks {
		if !c.Take() {
			continue
		}
		c.Distinct(fmt.Sprintf("cr64 %d", qi), true)
		for _, r := range crRems {
			x := new(big.Int).Mul(q, L)
			x.Add(x, r)
			if x.BitLen() > 512 {
				continue
			}
			checkExpand("constructed-remainder/expand64", ref.ToLE(x, 64), true)
		}
	}
	for q := int64(0); q <= 16; q++ {
		if !c.Take() {
			continue
		}
		c.Distinct(fmt.Sprintf("cr32 %d", q), true)
		for _, r := range crRems {
			x := new(big.Int).Mul(big.NewInt(q), L)
			x.Add(x, r)
			if x.BitLen() > 256 {
				continue
			}
			checkExpand("constructed-remainder/expand32", ref.ToLE(x, 32), true)
		}
	}
	for i := range As {
		if As[i].Sign() == 0 {
			continue
		}
		if !c.Take() {
			continue
		}
		c.Distinct(fmt.Sprintf("crmul %d", i), true)
		inv := new(big.Int).ModInverse(As[i], L)
		for j := range crRems {
			bv := new(big.Int).Mul(crRems[j], inv)
			bv.Mod(bv, L)
			b := fromInt(bv)
			var m Bignum256
			Mul(&m, &lim[i], &b)
			c.Step(1)
			if valueOf(&m).Cmp(crRems[j]) != 0 || !canonical(&m) {
				c.Violation("C19 Mul constructed-remainder", fmt.Sprintf("Mul(%s, %s) = %s (limbs %s), expected %s", As[i], bv, valueOf(&m), limbsStr(&m), crRems[j]), map[string]interface{}{"a": As[i].String(), "b": bv.String(), "limbs": limbsStr(&m), "expected": crRems[j].String()})
			}
			Mul(&m, &b, &lim[i])
			if valueOf(&m).Cmp(crRems[j]) != 0 || !canonical(&m) {
				c.Violation("C19 Mul constructed-remainder", fmt.Sprintf("Mul(%s, %s) = %s (limbs %s), expected %s", bv, As[i], valueOf(&m), limbsStr(&m), crRems[j]), map[string]interface{}{"a": bv.String(), "b": As[i].String(), "limbs": limbsStr(&m), "expected": crRems[j].String()})
			}
		}
		c.ClassN("constructed-remainder/mul", len(crRems))
	}
	// ---- outputs are fully overwritten (VerifyBatch reuses its scalar slots from chunk to chunk) -----
	c.Require("dirty-output")
	for i := range As {
		if !c.Take() {
			continue
		}
		c.Class("dirty-output")
		c.Distinct(fmt.Sprintf("dirty %d", i), true)
		var junk Bignum256
		for k := 0; k < LimbSize; k++ {
			junk[k] = Element((uint64(1) << BitsPerLimb) - 1 - uint64(k))
		}
		j := (i*13 + 5) % len(As)
		a, b := lim[i], lim[j]
		o1, o2, o3, o4, o5 := junk, junk, junk, junk, junk
		Add(&o1, &a, &b)
		Mul(&o2, &a, &b)
		Expand(&o3, ref.ToLE(As[i], 32))
		ExpandRaw(&o4, ref.ToLE(As[i], 32))
		Expand(&o5, ref.ToLE(new(big.Int).Mod(As[i], pow2(128)), 16))
		var f1, f2 Bignum256
		Add(&f1, &a, &b)
		Mul(&f2, &a, &b)
		c.Step(5)
		if o1 != f1 || o2 != f2 || valueOf(&o3).Cmp(As[i]) != 0 || valueOf(&o4).Cmp(As[i]) != 0 || valueOf(&o5).Cmp(new(big.Int).Mod(As[i], pow2(128))) != 0 || !canonical(&o3) || !canonical(&o5) {
			c.Violation("C19 dirty-output", fmt.Sprintf("a scalar operation's result depends on the previous content of its output variable (a=%s)", As[i]), map[string]interface{}{"a": As[i].String(), "b": As[j].String()})
		}
	}
	// ---- signed radix-16 recoding ------------------------------------------------------------
	checkW4 := func(class string, x *Bignum256, val *big.Int, desc string) {
		var r [64]int8
		w4calls++
		if w4calls%2 == 1 {
			// a reused digit array (holds the digits of 2^255 - 1)
			all := fromIntRaw(new(big.Int).Sub(pow2(255), big.NewInt(1)))
			ContractWindow4(&r, &all)
		}
		ContractWindow4(&r, x)
		c.Step(1)
		c.Class(class)
		sum := new(big.Int)
		okRange := true
		for i := 63; i >= 0; i-- {
			sum.Lsh(sum, 4)
			sum.Add(sum, big.NewInt(int64(r[i])))
			if r[i] < -8 || r[i] > 8 {
				okRange = false
			}
		}
		if r[63] < 0 {
			okRange = false
		}
		if sum.Cmp(val) != 0 || !okRange {
			c.Violation("C19 ContractWindow4 "+class, fmt.Sprintf("radix-16 recoding of %s: digits %v sum to %s (range ok: %v)", desc, r, sum, okRange), map[string]interface{}{"scalar": val.String(), "digits": fmt.Sprint(r)})
		}
	}
	for i, s := range nib {
		if !c.Take() {
			continue
		}
		c.Distinct(fmt.Sprintf("w4 %d", i), true)
		// (a) any integer below 2^255 through ExpandRaw; (b) its clamped form; (c) reduced through Expand
		b := append([]byte{}, s...)
		b[31] &= 0x7f
		var x Bignum256
		ExpandRaw(&x, b)
		checkW4("window4/raw", &x, ref.LE(b), "raw "+ref.Hex(b))
		b[0] &= 248
		b[31] |= 64
		ExpandRaw(&x, b)
		checkW4("window4/raw", &x, ref.LE(b), "clamped "+ref.Hex(b))
		Expand(&x, s)
		checkW4("window4/reduced", &x, new(big.Int).Mod(ref.LE(s), L), "reduced "+ref.Hex(s))
	}
	// ---- sliding-window recodings -------------------------------------------------------------
	sl := slidingAlphabet(c.Thorough())
	sl = append(sl, As...)
	for i, v := range sl {
		if !c.Take() {
			continue
		}
		c.Distinct(fmt.Sprintf("sl %d", i), true)
		var x Bignum256
		if v.Cmp(L) < 0 {
			x = fromInt(v)
		} else {
			ExpandRaw(&x, ref.ToLE(v, 32))
		}
		for _, w := range []uint{5, 7} {
			var r [256]int8
			if i%2 == 1 {
				// the digit array is reused: it still holds the recoding of another scalar (L - 1 or 2^252 - 1)
				hi := fromInt(new(big.Int).Sub(L, big.NewInt(1)))
				if i%4 == 3 {
					hi = fromInt(new(big.Int).Sub(pow2(252), big.NewInt(1)))
				}
				ContractSlidingWindow(&r, &hi, w)
			}
			ContractSlidingWindow(&r, &x, w)
			c.Step(1)
			c.Class(fmt.Sprintf("sliding%d", w))
			m := int8(1<<(w-1)) - 1
			sum := new(big.Int)
			okk := true
			for k := 255; k >= 0; k-- {
				sum.Lsh(sum, 1)
				sum.Add(sum, big.NewInt(int64(r[k])))
				if r[k] != 0 && (r[k]&1 == 0 || r[k] > m || r[k] < -m) {
					okk = false
				}
			}
			if sum.Cmp(v) != 0 || !okk {
				c.Violation(fmt.Sprintf("C19 ContractSlidingWindow w=%d", w), fmt.Sprintf("sliding-window recoding (w=%d) of %s: digits sum to %s, digit range ok: %v", w, v, sum, okk), map[string]interface{}{"scalar": v.String(), "window": w, "digits": fmt.Sprint(r)})
			}
		}
	}
}

// atAlign returns a copy of b that starts at address = k (mod 8) inside a larger buffer and keeps
// spare capacity behind it (callers hold keys and strings inside packed records, at any alignment).
var alignCounter int

func atAlign(b []byte) []byte {
	alignCounter++
	off := alignCounter & 7
	buf := make([]byte, len(b)+24)
	for i := range buf {
		buf[i] = 0xA5
	}
	copy(buf[off:], b)
	return buf[off : off+len(b)]
}

var w4calls int

func fromIntRaw(v *big.Int) Bignum256 {
	var x Bignum256
	ExpandRaw(&x, ref.ToLE(v, 32))
	return x
}
