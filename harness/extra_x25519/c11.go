package x25519

import (
	"strings"
	"io/ioutil"
	"bytes"
	"crypto/ecdh"
	"crypto/sha512"
	"fmt"
	"math/big"

	"github.com/oasisprotocol/ed25519"
	ref "github.com/oasisprotocol/ed25519/internal/zzverifref"
	rt "github.com/oasisprotocol/ed25519/internal/zzverifrt"
)

func init() {
	rt.Register("C11", jobC11)
	rt.Register("C12", jobC12)
	rt.Register("C10x", func(c *rt.Ctx) { c12Strings(c, "C10") })
}

func pow2(n uint) *big.Int { return new(big.Int).Lsh(big.NewInt(1), n) }
func badd(a *big.Int, k int64) *big.Int {
	return new(big.Int).Add(a, big.NewInt(k))
}

// nibScalars: the nibble-pattern alphabet NIB of DESIGN 4 (every digit value at every position
// over several fills; runs of 7/8/9/15 of every length at every start).
func nibScalars(thorough bool) [][]byte {
	var out [][]byte
	set := func(b []byte, pos int, v byte) {
		if pos%2 == 0 {
			b[pos/2] = b[pos/2]&0xf0 | v
		} else {
			b[pos/2] = b[pos/2]&0x0f | v<<4
		}
	}
	fills := []byte{0, 7, 8, 9, 15}
	vals := []byte{0, 1, 2, 3, 4, 5, 6, 7, 8, 9, 10, 11, 12, 13, 14, 15}
	if !thorough {
		fills = []byte{0, 8, 15}
		vals = []byte{0, 1, 7, 8, 9, 15}
	}
	for pos := 0; pos < 64; pos++ {
		for _, v := range vals {
			for _, f := range fills {
				b := bytes.Repeat([]byte{f | f<<4}, 32)
				set(b, pos, v)
				out = append(out, b)
			}
		}
	}
	for _, rv := range []byte{7, 8, 9, 15} {
		for start := 0; start < 64; start++ {
			for l := 1; start+l <= 64; l++ {
				if !thorough && !(start%5 == 0 && (l%7 == 1 || start+l == 64)) {
					continue
				}
				b := make([]byte, 32)
				for p := start; p < start+l; p++ {
					set(b, p, rv)
				}
				out = append(out, b)
			}
		}
	}
	return out
}

// carryRunScalars: a run of one digit value with the digit directly below it chosen to send (or
// not send) a carry into the run - the patterns on which a signed-digit recoding that handles
// carries limb by limb (56-bit, 30-bit) or with a bias trick differs from the serial one. Runs
// start at every nibble; lengths around one limb of either layout, and to the top.
func carryRunScalars(thorough bool) [][]byte {
	var out [][]byte
	set := func(b []byte, pos int, v byte) {
		if pos%2 == 0 {
			b[pos/2] = b[pos/2]&0xf0 | v
		} else {
			b[pos/2] = b[pos/2]&0x0f | v<<4
		}
	}
	lens := []int{7, 8, 14, 15}
	if thorough {
		lens = []int{6, 7, 8, 9, 13, 14, 15, 16, 28}
	}
	for _, rv := range []byte{7, 8, 15, 0} {
		for _, below := range []byte{8, 15, 7} {
			for _, fill := range []byte{0, 0xa} {
				for start := 1; start < 64; start++ {
					ls := append([]int{}, lens...)
					ls = append(ls, 64-start)
					for _, l := range ls {
						if start+l > 64 {
							continue
						}
						b := bytes.Repeat([]byte{fill | fill<<4}, 32)
						for p := start; p < start+l; p++ {
							set(b, p, rv)
						}
						set(b, start-1, below)
						out = append(out, b)
					}
				}
			}
		}
	}
	return out
}

func le32(x *big.Int) []byte { return ref.ToLE(new(big.Int).Mod(x, pow2(256)), 32) }

func jobC11(c *rt.Ctx) {
	c.Require("fast/nib", "fast/carry-run", "fast/boundary", "fast/clamp-bits", "generic/value", "generic/low-order-error", "generic/noncanonical-u", "chain")
	nine := make([]byte, 32)
	nine[0] = 9
	// the exported Basepoint slice is a value callers hold: appending to it (a transcript, a wire buffer)
	// never changes its 32 bytes - and must not reach library state either, should the slice have spare
	// capacity. Done once per process, BEFORE everything else: every later check runs after it. The
	// appended bytes are the RFC result of a case evaluated right below.
	{
		hs := sha512.Sum512([]byte("c11-append-scalar"))
		wantA := ref.X25519(hs[:32], nine)
		_ = append(Basepoint, wantA...)
		_ = append(Basepoint[:len(Basepoint):cap(Basepoint)], wantA...)
		if c.Take() {
			c.Distinct("basepoint-append", true)
			outA, errA := X25519(hs[:32], append([]byte{}, nine...))
			lo := make([]byte, 32)
			lo[0] = 1
			outL, errL := X25519(hs[:32], lo)
			outZ, errZ := X25519(hs[:32], make([]byte, 32))
			c.Step(3)
			if errA != nil || !bytes.Equal(outA, wantA) || errL == nil || outL != nil || errZ == nil || outZ != nil || Basepoint[0] != 9 || len(Basepoint) != 32 {
				c.Violation("C11 append-to-exported-slice", fmt.Sprintf("after the caller appended to the exported Basepoint slice (len %d, cap %d): X25519(s, 9) = %x, %v (RFC: %x); X25519(s, 1) = %x, %v; X25519(s, 0) = %x, %v (low-order points must be refused)", len(Basepoint), cap(Basepoint), outA, errA, wantA, outL, errL, outZ, errZ),
					map[string]interface{}{"cap_basepoint": cap(Basepoint), "appended": ref.Hex(wantA)})
			}
		}
	}
	// argument lengths that are 32 modulo a power of two: 2^8 + 32, 2^16 + 32, 2^24 + 32, 2^31 + 32 and
	// (where int has 64 bits) 2^32 + 32 bytes - "not 32 bytes long" is decided on the whole length, not
	// on a length that went through a narrower integer type. The slices are allocated and left untouched.
	c.Require("length-truncation")
	if c.Take() {
		c.Class("length-truncation")
		c.Distinct("length-truncation", true)
		hs := sha512.Sum512([]byte("c11-long-args"))
		shifts := []uint{8, 16, 24}
		if ^uint(0)>>63 == 1 && memAvailableGiB() >= 12 {
			// (a slice of 2 or 4 GiB: only where int has 64 bits and the machine has the memory to spare,
			// should the runtime decide to clear it)
			shifts = append(shifts, 31, 32)
			c.Class("length-truncation/4GiB")
		}
		for _, sh := range shifts {
			n := int(uint64(1)<<sh) + 32
			long := make([]byte, n)
			copy(long, hs[:32])
			for which := 0; which < 3; which++ {
				sc, pt := hs[:32], nine
				switch which {
				case 0:
					sc = long
				case 1:
					pt = long
				default:
					sc, pt = long, Basepoint
				}
				out, err := X25519(sc, pt)
				c.Step(1)
				if err == nil || out != nil {
					c.Violation("C11 length-truncation", fmt.Sprintf("X25519 with an argument of 2^%d + 32 bytes (argument %d) returned %x, err=%v; an argument that is not 32 bytes long must be refused", sh, which, out, err), map[string]interface{}{"shift": sh, "which": which})
				}
			}
			long = nil
		}
	}
	// caller buffers refilled between calls: one scalar buffer and one point buffer, on the base-point
	// path and the generic path in turn; every result is the RFC 7748 value for the bytes passed at
	// that call
	c.Require("buffer-reuse")
	if c.Take() {
		c.Class("buffer-reuse")
		c.Distinct("x25519-bufreuse", true)
		sb, pb := make([]byte, 32), make([]byte, 32)
		for step := 0; step < 24; step++ {
			hs := sha512.Sum512([]byte{0x49, byte(step / 2)}) // the same scalar twice in a row, then another
			copy(sb, hs[:32])
			var pt []byte
			switch step % 4 {
			case 0, 1:
				pt = Basepoint
			case 2:
				copy(pb, hs[32:])
				pt = pb
			default:
				copy(pb, nine)
				pt = pb
			}
			want := ref.X25519(hs[:32], pt)
			got, err := X25519(sb, pt)
			c.Step(1)
			if bytes.Equal(want, make([]byte, 32)) {
				want = nil
			}
			if (err != nil) != (want == nil) || !bytes.Equal(got, want) {
				c.Violation("C11 buffer-reuse", fmt.Sprintf("step %d: X25519 from a reused scalar buffer (point kind %d) = %x, %v; RFC 7748: %x", step, step%4, got, err, want), map[string]interface{}{"step": step, "scalar": ref.Hex(sb), "point": ref.Hex(pt)})
				break
			}
			if step%5 == 4 {
				for i := range sb {
					sb[i] = 0
				}
			}
		}
	}
	// held results of X25519 (fast and generic path alternating), as for the conversions in C12
	c.Require("held-results")
	if c.Take() {
		c.Class("held-results")
		c.Distinct("held-x25519", true)
		var got, want [][]byte
		for i := 0; i < 70; i++ {
			hs := sha512.Sum512([]byte{0x48, byte(i)})
			pt := Basepoint
			if i%2 == 1 {
				pt = append([]byte{}, hs[32:]...)
			}
			o, err := X25519(hs[:32], pt)
			if err != nil {
				o = nil
			}
			got = append(got, o)
			w := ref.X25519(hs[:32], pt)
			if bytes.Equal(w, make([]byte, 32)) {
				w = nil
			}
			want = append(want, w)
		}
		c.Step(70)
	heldX:
		for i := range got {
			_ = append(got[i], bytes.Repeat([]byte{0xEE}, 72)...)
			full := got[i][:cap(got[i])]
			for j := len(got[i]); j < len(full); j++ {
				full[j] = 0xDD
			}
			for j := range got {
				if !bytes.Equal(got[j], want[j]) {
					c.Violation("C11 held-results", fmt.Sprintf("X25519 result %d changed (or was wrong) after the caller appended to result %d", j, i), map[string]interface{}{"held": j, "appended_to": i})
					break heldX
				}
			}
		}
	}
	checkFast := func(class string, s []byte) {
		want := ref.X25519(s, nine)
		sc := append([]byte{}, s...)
		o1, e1 := X25519(sc, Basepoint)
		var a1, a2, in, b9 [32]byte
		copy(in[:], s)
		copy(b9[:], nine)
		ScalarBaseMult(&a1, &in)
		ScalarMult(&a2, &in, &b9)
		o2, e2 := X25519(sc, append([]byte{}, nine...))
		c.Step(4)
		c.Class(class)
		c.DistinctB(true, []byte("fast"), s)
		// third opinion where the toolchain accepts the scalar
		if priv, err := ecdh.X25519().NewPrivateKey(s); err == nil {
			if !bytes.Equal(priv.PublicKey().Bytes(), want) {
				c.Fail("model and crypto/ecdh disagree on X25519(%x, 9)", s)
				return
			}
		}
		bad := e1 != nil || e2 != nil || !bytes.Equal(o1, want) || !bytes.Equal(a1[:], want) || !bytes.Equal(a2[:], want) || !bytes.Equal(o2, want) || !bytes.Equal(sc, s)
		if !bytes.Equal(in[:], s) || !bytes.Equal(b9[:], nine) || Basepoint[0] != 9 {
			c.Violation("C11 input modified", fmt.Sprintf("ScalarBaseMult / ScalarMult modified an input array (scalar %x)", s), map[string]interface{}{"scalar": ref.Hex(s)})
		}
		if c.WantSample() {
			c.Sample(map[string]interface{}{"scalar": ref.Hex(s), "class": class, "rfc7748": ref.Hex(want), "fast_path": ref.Hex(o1)})
		}
		if bad {
			which := "X25519(s,Basepoint)"
			switch {
			case !bytes.Equal(a1[:], want):
				which = "ScalarBaseMult"
			case !bytes.Equal(a2[:], want):
				which = "ScalarMult(s,9)"
			case !bytes.Equal(o2, want):
				which = "X25519(s,copy of 9)"
			}
			c.Violation(fmt.Sprintf("C11 fast-path %s class=%s", which, class), fmt.Sprintf("%s differs from RFC 7748 X25519 for scalar %x", which, s),
				map[string]interface{}{"scalar": ref.Hex(s), "expected": ref.Hex(want), "X25519_Basepoint": ref.Hex(o1), "ScalarBaseMult": ref.Hex(a1[:]), "ScalarMult_9": ref.Hex(a2[:]), "X25519_copy9": ref.Hex(o2), "err1": fmt.Sprint(e1), "err2": fmt.Sprint(e2)})
		}
	}
	for _, s := range carryRunScalars(c.Thorough()) {
		if !c.Take() {
			continue
		}
		checkFast("fast/carry-run", s)
	}
	for _, s := range nibScalars(c.Thorough()) {
		if !c.Take() {
			continue
		}
		checkFast("fast/nib", s)
	}
	// all 8 low-3-bit patterns x all 4 top-2-bit patterns on 3 bases
	for bi := 0; bi < 3; bi++ {
		for lo := 0; lo < 8; lo++ {
			for hi := 0; hi < 4; hi++ {
				if !c.Take() {
					continue
				}
				h := sha512.Sum512([]byte{byte(bi)})
				s := append([]byte{}, h[:32]...)
				s[0] = s[0]&0xf8 | byte(lo)
				s[31] = s[31]&0x3f | byte(hi)<<6
				checkFast("fast/clamp-bits", s)
			}
		}
	}
	var bnd []*big.Int
	for _, x := range []*big.Int{big.NewInt(0), big.NewInt(1), big.NewInt(7), big.NewInt(8), badd(ref.L, -1), ref.L, badd(ref.L, 1), new(big.Int).Mul(ref.L, big.NewInt(8)), badd(new(big.Int).Mul(ref.L, big.NewInt(8)), 8),
		badd(pow2(254), 0), badd(pow2(254), 8), badd(pow2(255), -8), badd(pow2(255), -1), pow2(255), badd(pow2(256), -1), badd(pow2(252), 0), badd(pow2(253), -8)} {
		bnd = append(bnd, x)
	}
	for i := 0; i < 64; i++ {
		a, _ := ref.ExpandSeed([]byte{byte(i), 0, 0, 0, 0, 0, 0, 0, 0, 0, 0, 0, 0, 0, 0, 0, 0, 0, 0, 0, 0, 0, 0, 0, 0, 0, 0, 0, 0, 0, 0, 0})
		bnd = append(bnd, a)
	}
	for _, x := range bnd {
		if !c.Take() {
			continue
		}
		checkFast("fast/boundary", le32(x))
	}
	// generic path
	var pts [][]byte
	addP := func(x *big.Int) {
		if x.Sign() >= 0 && x.BitLen() <= 256 {
			pts = append(pts, ref.ToLE(x, 32))
		}
	}
	lo8a, _ := new(big.Int).SetString("325606250916557431795983626356110631294008115727848805560023387167927233504", 10)
	lo8b, _ := new(big.Int).SetString("39382357235489614581723060781553021112529911719440698176882885853963445705823", 10)
	low := []*big.Int{big.NewInt(0), big.NewInt(1), badd(ref.P, -1), ref.P, badd(ref.P, 1), lo8a, lo8b}
	for _, u := range low {
		addP(u)
		addP(new(big.Int).Add(u, ref.P))
		addP(new(big.Int).SetBit(new(big.Int).Set(u), 255, 1))
	}
	for i := int64(2); i <= 20; i++ {
		addP(big.NewInt(i))
		addP(badd(pow2(255), -i))
		addP(new(big.Int).SetBit(big.NewInt(i), 255, 1))
	}
	for k := uint(1); k < 255; k++ {
		if c.Thorough() || k%9 == 0 {
			addP(pow2(k))
			addP(badd(pow2(k), -1))
		}
	}
	for i := 0; i < 16; i++ {
		h := sha512.Sum512([]byte{0x50, byte(i)})
		pts = append(pts, h[:32])
	}
	// points that put a limb of the first ladder step's E = AA - BB at a wrap point of the constant a24
	// (see c11step.go)
	fsp, fspTargets := firstStepPoints(c.Thorough())
	pts = append(pts, fsp...)
	c.Extra("first_step_points", int64(len(fsp)))
	c.Extra("first_step_targets_tried", int64(fspTargets))
	scal := [][]byte{le32(big.NewInt(8)), le32(badd(pow2(255), -1)), nil, nil}
	h1 := sha512.Sum512([]byte("c11-scalar-1"))
	h2 := sha512.Sum512([]byte("c11-scalar-2"))
	scal[2], scal[3] = h1[:32], h2[:32]
	for pi, pt := range pts {
		for si, s := range scal {
			if !c.Take() {
				continue
			}
			want := ref.X25519(s, pt)
			zero := bytes.Equal(want, make([]byte, 32))
			pc, sc := atAlign(pt), atAlign(s)
			out, err := X25519(sc, pc)
			var dst, in, base [32]byte
			copy(in[:], s)
			copy(base[:], pt)
			// the output array is reused by callers: it holds the previous result, not zeros
			for i := range dst {
				dst[i] = 0xAA
			}
			ScalarMult(&dst, &in, &base)
			c.Step(2)
			c.Distinct(fmt.Sprintf("gen %d %d", pi, si), true)
			u := ref.LE(pt)
			if zero {
				c.Class("generic/low-order-error")
			} else {
				c.Class("generic/value")
			}
			if u.Bit(255) == 1 || new(big.Int).SetBit(new(big.Int).Set(u), 255, 0).Cmp(ref.P) >= 0 {
				c.Class("generic/noncanonical-u")
			}
			bad := !bytes.Equal(dst[:], want) || !bytes.Equal(pc, pt) || !bytes.Equal(sc, s)
			if zero {
				bad = bad || err == nil || out != nil
			} else {
				bad = bad || err != nil || !bytes.Equal(out, want)
			}
			if bad {
				c.Violation(fmt.Sprintf("C11 generic zero=%v", zero), fmt.Sprintf("X25519(%x, %x): out=%x err=%v ScalarMult=%x; RFC 7748 says %x", s, pt, out, err, dst, want),
					map[string]interface{}{"scalar": ref.Hex(s), "point": ref.Hex(pt), "expected": ref.Hex(want), "observed": ref.Hex(out), "err": fmt.Sprint(err), "scalarmult": ref.Hex(dst[:])})
			}
		}
	}
	// argument-length contract on re-slices of the exported base-point slice (fast path selected by
	// pointer identity): an error and no output exactly when the length is not 32
	c.Require("baseslice")
	for hi := 0; hi <= 32; hi++ {
		if !c.Take() {
			continue
		}
		sc := le32(big.NewInt(int64(1000 + hi)))
		out, err := X25519(sc, Basepoint[:hi])
		c.Step(1)
		c.Class("baseslice")
		c.Distinct(fmt.Sprintf("baseslice %d", hi), true)
		wantErr := hi != 32
		bad := (err != nil) != wantErr || (wantErr && out != nil)
		if !wantErr && !bad {
			bad = !bytes.Equal(out, ref.X25519(sc, nine))
		}
		if bad {
			c.Violation(fmt.Sprintf("C11 basepoint-reslice wantErr=%v", wantErr), fmt.Sprintf("X25519(s, Basepoint[:%d]) = %x, %v", hi, out, err), map[string]interface{}{"len": hi})
		}
	}
	// the value neighbourhood of the base point (a fast path selected by comparing the point's VALUE
	// must compare all of it): every 32-byte string that differs from {9, 0, ..., 0} in one bit, in
	// byte 0 or in byte 31 (thorough: in any one byte), as a fresh slice
	c.Require("near-basepoint")
	for pos := 0; pos < 32; pos++ {
		for v := 0; v < 256; v++ {
			pt := le32(big.NewInt(9))
			if byte(v) == pt[pos] {
				continue
			}
			x := byte(v) ^ pt[pos]
			if !c.Thorough() && pos != 0 && pos != 31 && x&(x-1) != 0 {
				continue
			}
			if !c.Take() {
				continue
			}
			pt[pos] = byte(v)
			h := sha512.Sum512([]byte{0xC3, byte(pos), byte(v)})
			sc := h[:32]
			want := ref.X25519(sc, pt)
			out, err := X25519(sc, pt)
			c.Step(1)
			c.Class("near-basepoint")
			c.Distinct(fmt.Sprintf("near %d %d", pos, v), true)
			zero := bytes.Equal(want, make([]byte, 32))
			bad := false
			if zero {
				bad = err == nil
			} else {
				bad = err != nil || !bytes.Equal(out, want)
			}
			if bad {
				c.Violation("C11 near-basepoint value", fmt.Sprintf("X25519(%x, %x): out=%x err=%v; RFC 7748 says %x", sc, pt, out, err, want),
					map[string]interface{}{"scalar": ref.Hex(sc), "point": ref.Hex(pt), "expected": ref.Hex(want), "observed": ref.Hex(out), "err": fmt.Sprint(err)})
			}
		}
	}
	// constructed outputs: for every byte position i a result whose ONLY non-zero byte is byte i
	// (a sparse u in a prime-order subgroup of the curve or of the twist, and P = [s^-1]u): the
	// low-order rejection must look at every byte of the result
	c.Require("sparse-output")
	twistL := ref.TwistSubgroupOrder()
	for pos := 0; pos < 32; pos++ {
		for variant := 0; variant < 2; variant++ {
			if !c.Take() {
				continue
			}
			c.Class("sparse-output")
			c.Distinct(fmt.Sprintf("sparse %d %d", pos, variant), true)
			var target, order *big.Int
			found := 0
			for v := int64(1); v < 256 && target == nil; v++ {
				if pos == 31 && v >= 128 {
					break
				}
				u := new(big.Int).Lsh(big.NewInt(v), uint(8*pos))
				for _, ord := range []*big.Int{ref.L, twistL} {
					if _, z := ref.LadderXZ(ord, u); z.Sign() == 0 && u.Sign() != 0 {
						if found == variant {
							target, order = u, ord
						}
						found++
						break
					}
				}
			}
			if target == nil {
				continue
			}
			if !sparseOutputCase(c, []byte{0xC1, byte(pos), byte(variant)}, target, order, fmt.Sprintf("non-zero only in byte %d", pos)) {
				return
			}
		}
	}
	// boundary results: u = k and u = p - k for k < 64, and u around every limb boundary of both field
	// layouts with all higher bits set or clear (the final reduction / serialisation of a backend is
	// exercised where its carry and compare logic has its cases)
	c.Require("boundary-output")
	var btargets []*big.Int
	for k := int64(1); k < 64; k++ {
		btargets = append(btargets, big.NewInt(k), new(big.Int).Sub(ref.P, big.NewInt(k)))
	}
	for _, bit := range []uint{25, 26, 51, 76, 77, 102, 127, 128, 153, 178, 179, 204, 229, 230} {
		for d := int64(-2); d <= 2; d++ {
			lo := new(big.Int).Lsh(big.NewInt(1), bit)
			lo.Add(lo, big.NewInt(d))
			hi := new(big.Int).Sub(new(big.Int).Lsh(big.NewInt(1), 255), new(big.Int).Lsh(big.NewInt(1), bit))
			hi.Add(hi, big.NewInt(d))
			btargets = append(btargets, lo, hi)
		}
	}
	for ti, u := range btargets {
		if !c.Take() {
			continue
		}
		var order *big.Int
		for _, ord := range []*big.Int{ref.L, twistL} {
			if _, z := ref.LadderXZ(ord, u); z.Sign() == 0 {
				order = ord
				break
			}
		}
		c.Distinct(fmt.Sprintf("boundary %d", ti), order != nil)
		if order == nil {
			c.Class("boundary-output/not-in-prime-subgroup")
			continue
		}
		c.Class("boundary-output")
		if !sparseOutputCase(c, []byte{0xC4, byte(ti), byte(ti >> 8)}, u, order, "boundary value "+u.Text(16)) {
			return
		}
	}
	// two-byte results: the same mask at byte i and byte j, zero elsewhere (differences that cancel
	// when a zero test folds words together with xor instead of or)
	masks := []int64{1}
	if c.Thorough() {
		masks = []int64{1, 0x80, 0xff}
	}
	for i := 0; i < 32; i++ {
		for j := i + 1; j < 32; j++ {
			for _, m := range masks {
				if j == 31 && m >= 128 {
					continue
				}
				if !c.Take() {
					continue
				}
				u := new(big.Int).Lsh(big.NewInt(m), uint(8*i))
				u.Add(u, new(big.Int).Lsh(big.NewInt(m), uint(8*j)))
				var order *big.Int
				for _, ord := range []*big.Int{ref.L, twistL} {
					if _, z := ref.LadderXZ(ord, u); z.Sign() == 0 {
						order = ord
						break
					}
				}
				c.Distinct(fmt.Sprintf("sparse2 %d %d %d", i, j, m), order != nil)
				if order == nil {
					// u lies outside both prime-order subgroups (it has a torsion component): no
					// clamped scalar reaches it from a point of the same subgroup; skipped
					c.Class("sparse-output-2/not-in-prime-subgroup")
					continue
				}
				c.Class("sparse-output-2")
				if !sparseOutputCase(c, []byte{0xC2, byte(i), byte(j), byte(m)}, u, order, fmt.Sprintf("non-zero only in bytes %d and %d", i, j)) {
					return
				}
			}
		}
	}
	c.Require("sparse-output-2")
	// argument lengths as a PRODUCT (a check on the sum of the lengths passes every one-at-a-time sweep):
	// an error and no output exactly when either length is not 32; never a panic
	c.Require("length-product")
	lens := []int{}
	for l := 0; l <= 40; l++ {
		lens = append(lens, l)
	}
	lens = append(lens, 63, 64, 65)
	for _, ls := range lens {
		if !c.Take() {
			continue
		}
		c.Class("length-product")
		c.Distinct(fmt.Sprintf("lenprod %d", ls), true)
		for _, lp := range lens {
			sc := bytes.Repeat([]byte{0x42}, ls)
			pt := bytes.Repeat([]byte{0x17}, lp)
			var out []byte
			var err error
			pv := func() (pv interface{}) {
				defer func() { pv = recover() }()
				out, err = X25519(sc, pt)
				return nil
			}()
			c.Step(1)
			wantErr := ls != 32 || lp != 32
			if pv != nil || (err != nil) != wantErr || (wantErr && out != nil) || (!wantErr && len(out) != 32) {
				c.Violation(fmt.Sprintf("C11 length-product wantErr=%v", wantErr), fmt.Sprintf("X25519 with a %d-byte scalar and a %d-byte point: out=%x err=%v panic=%v", ls, lp, out, err, pv), map[string]interface{}{"scalar_len": ls, "point_len": lp})
			}
		}
	}
	// the package's functions used together: a key conversion of every special encoding (identity,
	// y = -1, y = 0, y >= p, undecodable) and then the generic and the fast path on an RFC 7748 vector
	c.Require("conversion-then-ladder")
	{
		specials := [][]byte{}
		for _, y := range []*big.Int{big.NewInt(1), badd(ref.P, -1), big.NewInt(0), badd(ref.P, 1), big.NewInt(2), badd(ref.P, 0)} {
			for sgn := 0; sgn < 2; sgn++ {
				b := ref.ToLE(y, 32)
				b[31] |= byte(sgn) << 7
				specials = append(specials, b)
			}
		}
		for si, sp := range specials {
			if !c.Take() {
				continue
			}
			c.Class("conversion-then-ladder")
			c.Distinct(fmt.Sprintf("conv-then %d", si), true)
			EdPublicKeyToX25519(sp)
			h := sha512.Sum512([]byte{0xC6, byte(si)})
			sc, pt := h[:32], h[32:]
			out, err := X25519(sc, pt)
			outB, errB := X25519(sc, Basepoint)
			c.Step(3)
			want, wantB := ref.X25519(sc, pt), ref.X25519(sc, nine)
			if err != nil || errB != nil || !bytes.Equal(out, want) || !bytes.Equal(outB, wantB) {
				c.Violation("C11 conversion-then-ladder", fmt.Sprintf("after EdPublicKeyToX25519(%x): X25519(%x, %x) = %x (RFC 7748: %x), base-point path %x (RFC 7748: %x)", sp, sc, pt, out, want, outB, wantB), map[string]interface{}{"converted_key": ref.Hex(sp)})
			}
		}
	}
	// the exported Basepoint slice in the SCALAR position (the bytes 09 00..00 used as a scalar), with
	// ordinary, special and low-order points: it is a scalar like any other
	c.Require("basepoint-as-scalar")
	{
		pts := [][]byte{le32(big.NewInt(9)), Basepoint, make([]byte, 32), le32(big.NewInt(1))}
		for i := 0; i < 6; i++ {
			h := sha512.Sum512([]byte{0xC7, byte(i)})
			pts = append(pts, h[:32])
		}
		for pi, pt := range pts {
			if !c.Take() {
				continue
			}
			c.Class("basepoint-as-scalar")
			c.Distinct(fmt.Sprintf("bp-scalar %d", pi), true)
			want := ref.X25519(nine, pt)
			zero := bytes.Equal(want, make([]byte, 32))
			for _, sc := range [][]byte{Basepoint, Basepoint[:32:32], append([]byte{}, nine...)} {
				out, err := X25519(sc, pt)
				c.Step(1)
				bad := false
				if zero {
					bad = err == nil || out != nil
				} else {
					bad = err != nil || !bytes.Equal(out, want)
				}
				if bad {
					c.Violation("C11 basepoint-as-scalar", fmt.Sprintf("X25519(Basepoint as scalar, %x) = %x, %v; RFC 7748: %x", pt, out, err, want), map[string]interface{}{"point": ref.Hex(pt)})
					break
				}
			}
		}
	}
	// in-place calls of the array functions: the output array is also the point (the natural way to
	// write the RFC 7748 iteration) or the scalar
	c.Require("array-aliasing")
	for ai := 0; ai < 24; ai++ {
		if !c.Take() {
			continue
		}
		c.Class("array-aliasing")
		c.Distinct(fmt.Sprintf("arr-alias %d", ai), true)
		h := sha512.Sum512([]byte{0xC5, byte(ai)})
		var k, u [32]byte
		copy(k[:], h[:32])
		copy(u[:], h[32:])
		if ai%3 == 0 {
			u = [32]byte{9}
		}
		want := ref.X25519(k[:], u[:])
		wantBase := ref.X25519(k[:], nine)
		k0 := k
		a, b := u, k
		ScalarMult(&a, &k, &a) // dst == base
		kk := k
		ScalarMult(&b, &b, &u) // dst == in
		var d [32]byte = k
		ScalarBaseMult(&d, &d) // dst == in
		c.Step(3)
		if !bytes.Equal(a[:], want) || !bytes.Equal(b[:], want) || !bytes.Equal(d[:], wantBase) || kk != k0 {
			c.Violation("C11 array-aliasing", fmt.Sprintf("in-place ScalarMult / ScalarBaseMult (scalar %x, point %x): dst==base %x, dst==in %x (RFC 7748: %x); ScalarBaseMult dst==in %x (RFC 7748: %x)", k0, u, a, b, want, d, wantBase),
				map[string]interface{}{"scalar": ref.Hex(k0[:]), "point": ref.Hex(u[:])})
		}
	}
	// results are fresh memory: they alias neither an argument nor a later result
	c.Require("result-fresh")
	for which := 0; which < 2; which++ {
		if !c.Take() {
			continue
		}
		c.Class("result-fresh")
		c.Distinct(fmt.Sprintf("fresh %d", which), true)
		s1, s2 := le32(big.NewInt(12345)), le32(big.NewInt(67890))
		pt := Basepoint
		if which == 1 {
			pt = le32(big.NewInt(9))
		}
		o1, _ := X25519(s1, pt)
		keep := append([]byte{}, o1...)
		o2, _ := X25519(s2, pt)
		c.Step(2)
		bad := !bytes.Equal(o1, keep) || !bytes.Equal(o1, ref.X25519(s1, nine)) || !bytes.Equal(o2, ref.X25519(s2, nine))
		if len(o1) == 32 {
			// the result is the caller's up to its capacity: overwrite all of it
			full := o1[:cap(o1)]
			for i := range full {
				full[i] ^= 0xff
			}
			_ = append(o1, 1, 2, 3)
			o3, _ := X25519(s1, pt)
			if !bytes.Equal(o3, keep) || Basepoint[0] != 9 || s1[0] != byte(12345&0xff) || !bytes.Equal(o2, ref.X25519(s2, nine)) {
				bad = true
			}
		}
		// scalar and point handed over as consecutive slices of one record (spare capacity = the next field)
		rec := append(append(append([]byte{}, s1...), le32(big.NewInt(9))...), bytes.Repeat([]byte{0xA5}, 16)...)
		recKeep := append([]byte{}, rec...)
		o4, e4 := X25519(rec[:32], rec[32:64])
		c.Step(1)
		if e4 != nil || !bytes.Equal(o4, keep) || !bytes.Equal(rec, recKeep) {
			bad = true
		}
		ek, ok5 := EdPublicKeyToX25519(rec[32:64])
		ep := EdPrivateKeyToX25519(append(append([]byte{}, rec[:32]...), rec[32:64]...))
		_, _, _ = ek, ok5, ep
		if !bytes.Equal(rec, recKeep) {
			bad = true
		}
		if bad {
			c.Violation("C11 result aliasing", "an X25519 result shares memory with a later result, an argument or internal state", map[string]interface{}{"fast_path": which == 0})
		}
	}
	// chains: outputs of previous calls as points / scalars (the RFC's iteration, 40 steps)
	for ch := 0; ch < 4; ch++ {
		if !c.Take() {
			continue
		}
		k := append([]byte{}, nine...)
		u := append([]byte{}, nine...)
		k[1] = byte(ch)
		steps := 40
		for i := 0; i < steps; i++ {
			point := u
			if i == 0 && ch%2 == 0 {
				point = Basepoint
			}
			got, err := X25519(k, point)
			want := ref.X25519(k, u)
			c.Step(1)
			if err != nil || !bytes.Equal(got, want) {
				c.Violation("C11 chain", fmt.Sprintf("iterated X25519 diverges from RFC 7748 at step %d of chain %d", i, ch), map[string]interface{}{"k": ref.Hex(k), "u": ref.Hex(u), "expected": ref.Hex(want), "observed": ref.Hex(got)})
				break
			}
			u, k = k, got
		}
		c.Class("chain")
		c.Distinct(fmt.Sprintf("chain %d", ch), true)
	}
}

func jobC12(c *rt.Ctx) {
	c.Require("seed")
	n := 64
	if c.Thorough() {
		n = 4096
	}
	for i := 0; i < n; i++ {
		if !c.Take() {
			continue
		}
		seed := make([]byte, 32)
		seed[0], seed[1] = byte(i), byte(i>>8)
		if i == n-1 {
			for j := range seed {
				seed[j] = 0xff
			}
		}
		k := ed25519.NewKeyFromSeed(seed)
		snap := append([]byte{}, k...)
		xpriv := EdPrivateKeyToX25519(k)
		xpub, ok := EdPublicKeyToX25519(k.Public().(ed25519.PublicKey))
		viaPriv, err := X25519(xpriv, Basepoint)
		h := sha512.Sum512(seed)
		h[0] &= 248
		h[31] &= 127
		h[31] |= 64
		nine := make([]byte, 32)
		nine[0] = 9
		wantPub := ref.X25519(h[:32], nine)
		_, y := ref.BaseMul(ref.LE(h[:32])).Affine()
		wantFromY := ref.EdToMontU(y)
		c.Step(3)
		c.Class("seed")
		c.DistinctB(true, []byte("seed"), seed)
		if !bytes.Equal(wantPub, wantFromY) {
			c.Fail("model: ladder and Edwards map disagree for seed %x", seed)
			return
		}
		if !ok || err != nil || !bytes.Equal(xpriv, h[:32]) || !bytes.Equal(xpub, wantPub) || !bytes.Equal(viaPriv, wantPub) || !bytes.Equal(k, snap) {
			c.Violation("C12 seed commutation", fmt.Sprintf("seed %x: conversions do not commute with key generation", seed),
				map[string]interface{}{"seed": ref.Hex(seed), "x_private": ref.Hex(xpriv), "want_private": ref.Hex(h[:32]), "from_public": ref.Hex(xpub), "via_private": ref.Hex(viaPriv), "expected": ref.Hex(wantPub), "ok": ok, "err": fmt.Sprint(err)})
		}
		if c.WantSample() {
			c.Sample(map[string]interface{}{"seed": ref.Hex(seed), "x25519_private": ref.Hex(xpriv), "x25519_public": ref.Hex(wantPub)})
		}
	}
	// results belong to the caller, up to their CAPACITY, and stay valid while held: several results are
	// kept, the caller appends to / overwrites the spare capacity of each, and every other result held
	// must still read as it did (results carved out of one shared block would run into each other)
	c.Require("held-results")
	for g := 0; g < 8; g++ {
		if !c.Take() {
			continue
		}
		c.Class("held-results")
		c.Distinct(fmt.Sprintf("held %d", g), true)
		type held struct{ got, want []byte }
		var hs []held
		for i := 0; i < 70; i++ {
			seed := make([]byte, 32)
			seed[0], seed[1], seed[2] = byte(i), byte(g), 0x7c
			k := ed25519.NewKeyFromSeed(seed)
			var got []byte
			var want []byte
			if i%2 == 0 {
				xp, _ := EdPublicKeyToX25519(k.Public().(ed25519.PublicKey))
				_, y := ref.Decode(k[32:])
				_ = y
				pt, _ := ref.Decode(k[32:])
				_, yy := pt.Affine()
				got, want = xp, ref.EdToMontU(yy)
			} else {
				hh := sha512.Sum512(seed)
				hh[0] &= 248
				hh[31] &= 127
				hh[31] |= 64
				got, want = EdPrivateKeyToX25519(k), hh[:32]
			}
			hs = append(hs, held{got, append([]byte{}, want...)})
		}
		c.Step(70)
	heldLoop:
		for i := range hs {
			// the caller uses result i as its own buffer: append beyond its length, overwrite its capacity
			_ = append(hs[i].got, bytes.Repeat([]byte{0xEE}, 40)...)
			full := hs[i].got[:cap(hs[i].got)]
			for j := len(hs[i].got); j < len(full); j++ {
				full[j] = 0xDD
			}
			for j := range hs {
				if !bytes.Equal(hs[j].got, hs[j].want) {
					c.Violation("C12 held-results", fmt.Sprintf("conversion result %d changed (or was wrong) after the caller appended to conversion result %d: %x, expected %x", j, i, hs[j].got, hs[j].want),
						map[string]interface{}{"held": j, "appended_to": i, "observed": ref.Hex(hs[j].got), "expected": ref.Hex(hs[j].want), "cap": cap(hs[i].got)})
					break heldLoop
				}
			}
		}
	}
	c12Strings(c, "C12")
}

// c12Strings: the key conversion accepts exactly the strings the lenient decoding accepts and
// returns the canonical (1+y)/(1-y) (used by C12, and by C10 for the "accepted as a point by the
// key conversion" clause).
// sparseCheckStrings: y with num(zeta -+ 1) = v * 2^(8 i) for every byte position i, where
// num = y^2 - 1 (so that y^2 = num + 1 must be a square for y to exist).
func sparseCheckStrings() [][]byte {
	var out [][]byte
	im := ref.SqrtM1
	negIm := new(big.Int).Sub(ref.P, im)
	minus1 := badd(ref.P, -1)
	one := big.NewInt(1)
	var factors []*big.Int
	for _, z := range []*big.Int{im, negIm, minus1, one} {
		for _, d := range []int64{-1, 1} {
			f := new(big.Int).Add(z, big.NewInt(d))
			f.Mod(f, ref.P)
			if f.Sign() != 0 {
				factors = append(factors, f)
			}
		}
	}
	try := func(cval, f *big.Int) bool {
		num := new(big.Int).Mul(cval, new(big.Int).ModInverse(f, ref.P))
		num.Mod(num, ref.P)
		y2 := new(big.Int).Add(num, one)
		y2.Mod(y2, ref.P)
		y := new(big.Int).ModSqrt(y2, ref.P)
		if y == nil {
			return false
		}
		for _, yy := range []*big.Int{y, new(big.Int).Sub(ref.P, y)} {
			for sgn := 0; sgn < 2; sgn++ {
				b := ref.ToLE(new(big.Int).Mod(yy, ref.P), 32)
				b[31] |= byte(sgn) << 7
				out = append(out, b)
			}
		}
		return true
	}
	for pos := 0; pos < 32; pos++ {
		for _, f := range factors {
			for v := int64(1); v < 256; v++ {
				if pos == 31 && v >= 128 {
					break
				}
				if try(new(big.Int).Lsh(big.NewInt(v), uint(8*pos)), f) {
					break
				}
			}
		}
	}
	// two-byte values: the same byte at positions i and i + 4k (they cancel when a zero test folds
	// 32- or 64-bit words with xor instead of or)
	for i := 0; i < 32; i++ {
		for j := i + 4; j < 32; j += 4 {
			for _, f := range factors {
				for v := int64(1); v < 128; v++ {
					cval := new(big.Int).Lsh(big.NewInt(v), uint(8*i))
					cval.Add(cval, new(big.Int).Lsh(big.NewInt(v), uint(8*j)))
					if try(cval, f) {
						break
					}
				}
			}
		}
	}
	// values whose 64-bit (32-bit) words ADD UP to a multiple of 2^64 (2^32): w in one word and 2^W - w in
	// another (they cancel when a zero test folds the words with + instead of |), for three unstructured w
	for _, W := range []uint{64, 32} {
		nw := int(256 / W)
		for a := 0; a < nw; a++ {
			for b := 0; b < nw; b++ {
				if a == b || (W == 32 && (a+b)%3 != 0) {
					continue
				}
				for _, f := range factors {
					for _, w0 := range []int64{0x0102030405, 1, 0x7f3c1d5b} {
						done := false
						for dw := int64(0); dw < 64 && !done; dw++ {
							w := big.NewInt(w0 + dw)
							if W == 32 {
								w.And(w, big.NewInt(0xffffffff))
							}
							cval := new(big.Int).Lsh(w, W*uint(a))
							cval.Add(cval, new(big.Int).Lsh(new(big.Int).Sub(new(big.Int).Lsh(big.NewInt(1), W), w), W*uint(b)))
							if cval.BitLen() > 255 {
								break
							}
							done = try(cval, f)
						}
					}
				}
			}
		}
	}
	return out
}

func c12Strings(c *rt.Ctx, prop string) {
	c.Require("pub/decodable", "pub/undecodable", "pub/y=1", "pub/noncanonical")
	var strs [][]byte
	lim := 1 << 14
	if c.Thorough() {
		lim = 1 << 18
	}
	for y := 0; y < lim; y++ {
		for s := 0; s < 2; s++ {
			b := make([]byte, 32)
			b[0], b[1], b[2] = byte(y), byte(y>>8), byte(y>>16)
			b[31] = byte(s) << 7
			strs = append(strs, b)
		}
	}
	top := 1 << 9
	if c.Thorough() {
		top = 1 << 12
	}
	for d := 1; d <= top; d++ {
		for s := 0; s < 2; s++ {
			b := ref.ToLE(badd(pow2(255), -int64(d)), 32)
			b[31] |= byte(s) << 7
			strs = append(strs, b)
		}
	}
	for k := uint(17); k < 255; k++ {
		for _, d := range []int64{-1, 0, 1} {
			for s := 0; s < 2; s++ {
				b := ref.ToLE(badd(pow2(k), d), 32)
				b[31] |= byte(s) << 7
				strs = append(strs, b)
			}
		}
	}
	// strings whose square-root check value is sparse (one non-zero byte, or the same byte at i and i+4k)
	strs = append(strs, sparseCheckStrings()...)
	for _, d := range []int64{-1, -2, 0, 1, 2} {
		for s := 0; s < 2; s++ {
			b := ref.ToLE(badd(ref.P, d), 32)
			b[31] |= byte(s) << 7
			strs = append(strs, b)
		}
	}
	// keys constructed for a chosen RESULT u: y = (u - 1)/(u + 1). Results with one non-zero byte per
	// position, u = k and p - k, 2^k and its neighbours, and all-ones strings with one "hole" byte (the
	// shapes a final reduction / canonical-form step of the result distinguishes)
	var targets []*big.Int
	for k := int64(0); k < 64; k++ {
		targets = append(targets, big.NewInt(k), badd(ref.P, -k))
	}
	for pos := 0; pos < 32; pos++ {
		for v := 1; v < 256; v++ {
			if !c.Thorough() && v > 3 && v < 0x7e && v%16 != 0 {
				continue
			}
			targets = append(targets, new(big.Int).Lsh(big.NewInt(int64(v)), uint(8*pos)))
		}
	}
	for k := uint(1); k < 255; k++ {
		targets = append(targets, badd(pow2(k), -1), pow2(k), badd(pow2(k), 1))
	}
	for _, b0 := range []byte{0x00, 0xec, 0xed, 0xee, 0xff} {
		for q := 1; q <= 31; q++ {
			for v := 0; v < 256; v++ {
				if !c.Thorough() && v > 2 && v < 0xfd && v != 0x7f && v != 0x80 {
					continue
				}
				b := bytes.Repeat([]byte{0xff}, 32)
				b[0], b[31] = b0, 0x7f
				if q == 31 {
					b[q] = byte(v) & 0x7f
				} else {
					b[q] = byte(v)
				}
				targets = append(targets, ref.LE(b))
			}
		}
	}
	one := big.NewInt(1)
	for _, u := range targets {
		if u.Cmp(ref.P) >= 0 {
			continue
		}
		den := new(big.Int).Add(u, one)
		den.Mod(den, ref.P)
		if den.Sign() == 0 {
			continue
		}
		y := new(big.Int).Sub(u, one)
		y.Mul(y, den.ModInverse(den, ref.P))
		y.Mod(y, ref.P)
		for s := 0; s < 2; s++ {
			b := ref.ToLE(y, 32)
			b[31] |= byte(s) << 7
			strs = append(strs, b)
		}
	}
	for _, b := range strs {
		if !c.Take() {
			continue
		}
		_, dec := ref.Decode(b)
		y := ref.YOf(b)
		want := ref.EdToMontU(y)
		in := atAlign(b)
		got, ok := EdPublicKeyToX25519(ed25519.PublicKey(in))
		c.Step(1)
		raw := ref.LE(b)
		raw.SetBit(raw, 255, 0)
		nc := raw.Cmp(ref.P) >= 0
		switch {
		case !dec:
			c.Class("pub/undecodable")
		case y.Cmp(big.NewInt(1)) == 0:
			c.Class("pub/y=1")
		default:
			c.Class("pub/decodable")
		}
		if nc {
			c.Class("pub/noncanonical")
		}
		c.DistinctB(dec, []byte("pub"), b)
		bad := ok != dec || !bytes.Equal(in, b)
		if dec {
			bad = bad || !bytes.Equal(got, want)
		} else {
			bad = bad || got != nil
		}
		if bad {
			c.Violation(fmt.Sprintf("%s public conversion decodable=%v noncanonical=%v", prop, dec, nc), fmt.Sprintf("EdPublicKeyToX25519(%x) = %x, %v; model: %x, decodable=%v", b, got, ok, want, dec),
				map[string]interface{}{"key": ref.Hex(b), "expected": ref.Hex(want), "observed": ref.Hex(got), "ok": ok, "decodable": dec})
		}
	}
}

// sparseOutputCase: P = [s^-1]target in the subgroup of the given prime order, so that RFC 7748
// X25519(s, P) = target; the library must return exactly target.
func sparseOutputCase(c *rt.Ctx, tag []byte, target, order *big.Int, what string) bool {
	h := sha512.Sum512(tag)
	sc := h[:32]
	cl := append([]byte{}, sc...)
	cl[0] &= 248
	cl[31] &= 127
	cl[31] |= 64
	sm := new(big.Int).Mod(ref.LE(cl), order)
	inv := new(big.Int).ModInverse(sm, order)
	P := ref.ToLE(ref.Ladder(inv, target), 32)
	want := ref.ToLE(target, 32)
	if !bytes.Equal(ref.X25519(sc, P), want) {
		c.Fail("sparse-output construction: model X25519 does not give the target")
		return false
	}
	out, err := X25519(sc, P)
	c.Step(1)
	if err != nil || !bytes.Equal(out, want) {
		c.Violation("C11 generic constructed-output", fmt.Sprintf("X25519(%x, %x): out=%x err=%v; RFC 7748 says %x (%s)", sc, P, out, err, want, what),
			map[string]interface{}{"scalar": ref.Hex(sc), "point": ref.Hex(P), "expected": ref.Hex(want), "observed": ref.Hex(out), "err": fmt.Sprint(err)})
	}
	return true
}

// atAlign returns a copy of b that starts at address = k (mod 8) inside a larger buffer and keeps
// spare capacity behind it (callers hold keys and strings inside packed records, at any alignment).
var alignCounter int

func atAlign(b []byte) []byte {
	alignCounter++
	off := alignCounter & 7
	buf := make([]byte, len(b)+24)
	for i := range buf {
		buf[i] = 0xA5
	}
	copy(buf[off:], b)
	return buf[off : off+len(b)]
}

// memAvailableGiB reads MemAvailable from /proc/meminfo (0 if unknown).
func memAvailableGiB() int {
	b, err := ioutil.ReadFile("/proc/meminfo")
	if err != nil {
		return 0
	}
	for _, ln := range strings.Split(string(b), "\n") {
		if strings.HasPrefix(ln, "MemAvailable:") {
			var kb int
			fmt.Sscanf(strings.TrimSpace(strings.TrimPrefix(ln, "MemAvailable:")), "%d", &kb)
			return kb >> 20
		}
	}
	return 0
}
