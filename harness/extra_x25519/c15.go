package x25519

// C15: history independence (E2, fresh process per history) and interleavings (E3, cooperative
// scheduler over instrumented accesses to package-level variables), plus the free-running -race pass.

import (
	"bytes"
	"crypto"
	stded "crypto/ed25519"
	"crypto/sha256"
	"crypto/sha512"
	"encoding/json"
	"fmt"
	"io"
	"math"
	"math/big"
	"os"
	"runtime"
	"runtime/debug"
	"sort"
	"strings"
	"sync"

	"github.com/oasisprotocol/ed25519"
	ref "github.com/oasisprotocol/ed25519/internal/zzverifref"
	rt "github.com/oasisprotocol/ed25519/internal/zzverifrt"
)

func init() {
	rt.Register("C15hist", jobC15hist)
	rt.Register("C15sched", jobC15sched)
	rt.Register("C15race", jobC15race)
	rt.RegisterChild("c15", c15Child)
}

// ---- operation alphabet -------------------------------------------------------------------------------

type c15op struct {
	name  string
	setup func()        // builds fixtures WITHOUT calling the library (toolchain crypto / model only)
	run   func() string // one library call; returns a digest of everything it returned
}

// dig digests what one library call returned - and then treats every returned slice as what it
// is, the caller's own memory: it is overwritten up to its CAPACITY. A result that aliases package
// state, a fixture, an argument or another result disturbs a later call, which the history and
// schedule oracles then see.
func dig(parts ...interface{}) string {
	h := sha256.New()
	for _, p := range parts {
		fmt.Fprintf(h, "%v|", p)
	}
	// errors are values the caller may keep: every error seen so far must still read as it did
	if holdErrors {
		for _, he := range heldErrors {
			if he.err.Error() != he.text {
				fmt.Fprintf(h, "held error changed from %q to %q|", he.text, he.err.Error())
			}
		}
		for _, p := range parts {
			if e, ok := p.(error); ok && e != nil {
				heldErrors = append(heldErrors, heldError{e, e.Error()})
			}
		}
	}
	d := fmt.Sprintf("%x", h.Sum(nil)[:12])
	for _, p := range parts {
		switch v := p.(type) {
		case []byte:
			scribble(v)
		case ed25519.PublicKey:
			scribble(v)
		case ed25519.PrivateKey:
			scribble(v)
		case []bool:
			v = v[:cap(v)]
			for i := range v {
				v[i] = false
			}
		}
	}
	return d
}

type heldError struct {
	err  error
	text string
}

var heldErrors []heldError

// holdErrors: sequential histories only (the list is harness state shared by all calls of a process).
var holdErrors bool

func scribble(b []byte) {
	b = b[:cap(b)]
	for i := range b {
		b[i] = 0xEE
	}
}

type c15fix struct {
	seed            []byte
	std             stded.PrivateKey
	pub             ed25519.PublicKey
	priv            ed25519.PrivateKey
	msg, digest     []byte
	sigPure         []byte
	sigSharedCtx    []byte
	batchPub        []ed25519.PublicKey
	batchMsg        [][]byte
	batchSig        [][]byte
	soKey, soSig    []byte
	xScalar, xPoint []byte
}

var fx *c15fix

// sharedOpts is ONE Options value handed to every call that uses it (callers keep a package-level
// options value; it is a read-only input).
var sharedOpts = &ed25519.Options{Context: "shared-ctx"}

func fixtures() *c15fix {
	if fx != nil {
		return fx
	}
	f := &c15fix{}
	f.seed = bytes.Repeat([]byte{0x42}, 32)
	f.std = stded.NewKeyFromSeed(f.seed)
	f.priv = ed25519.PrivateKey(append([]byte{}, f.std...))
	f.pub = ed25519.PublicKey(append([]byte{}, f.std[32:]...))
	f.msg = []byte("c15 message")
	d := sha512.Sum512(f.msg)
	f.digest = d[:]
	f.sigPure = stded.Sign(f.std, f.msg)
	f.sigSharedCtx, _ = f.std.Sign(nil, f.msg, &stded.Options{Context: "shared-ctx"})
	for i := 0; i < 70; i++ {
		sd := make([]byte, 32)
		sd[0], sd[1] = byte(i), 0x15
		k := stded.NewKeyFromSeed(sd)
		m := []byte(fmt.Sprintf("batch message %d", i))
		f.batchPub = append(f.batchPub, ed25519.PublicKey(append([]byte{}, k[32:]...)))
		f.batchMsg = append(f.batchMsg, m)
		f.batchSig = append(f.batchSig, stded.Sign(k, m))
	}
	// ZIP-215 small-order key: key = identity, R = [S]B, S = 5  (model)
	S := big.NewInt(5)
	f.soKey = make([]byte, 32)
	f.soKey[0] = 1 // the identity point
	f.soSig = append(ref.Base().Mul(S).Encode(), ref.ToLE(S, 32)...)
	h := sha512.Sum512([]byte("c15 x25519"))
	f.xScalar, f.xPoint = h[:32], h[32:]
	fx = f
	return f
}

func batchCall(n int, bad int) string {
	f := fixtures()
	sigs := append([][]byte{}, f.batchSig[:n]...)
	if bad >= 0 {
		s := append([]byte{}, sigs[bad]...)
		s[3] ^= 4
		sigs[bad] = s
	}
	all, valid, err := ed25519.VerifyBatch(rt.NewRng(1, "c15"), f.batchPub[:n], f.batchMsg[:n], sigs, &ed25519.Options{})
	return dig(all, valid, err)
}

var c15ops = []c15op{
	{"SignPure", nil, func() string { f := fixtures(); return dig(ed25519.Sign(f.priv, f.msg)) }},
	{"SignCtx", nil, func() string {
		f := fixtures()
		s, e := f.priv.Sign(nil, f.msg, &ed25519.Options{Context: "ctx"})
		return dig(s, e)
	}},
	{"SignPh", nil, func() string {
		f := fixtures()
		s, e := f.priv.Sign(nil, f.digest, &ed25519.Options{Hash: crypto.SHA512})
		return dig(s, e)
	}},
	{"SignPhSameCtxAsSignCtx", nil, func() string {
		f := fixtures()
		s, e := f.priv.Sign(nil, f.digest, &ed25519.Options{Hash: crypto.SHA512, Context: "ctx"})
		return dig(s, e)
	}},
	{"VerifyPhSameCtxAsSignCtx", nil, func() string {
		f := fixtures()
		sig, _ := f.std.Sign(nil, f.digest, &stded.Options{Hash: crypto.SHA512, Context: "ctx"})
		return dig(ed25519.VerifyWithOptions(f.pub, f.digest, sig, &ed25519.Options{Hash: crypto.SHA512, Context: "ctx"}))
	}},
	{"VerifyGood", nil, func() string { f := fixtures(); return dig(ed25519.Verify(f.pub, f.msg, f.sigPure)) }},
	{"VerifyBad", nil, func() string { f := fixtures(); return dig(ed25519.Verify(f.pub, []byte("other"), f.sigPure)) }},
	{"VerifyBadSigSameKeyMsg", nil, func() string {
		f := fixtures()
		s := append([]byte{}, f.sigPure...)
		s[40] ^= 1
		return dig(ed25519.Verify(f.pub, f.msg, s))
	}},
	{"VerifyKeySignBitFlipped", nil, func() string {
		f := fixtures()
		k := append([]byte{}, f.pub...)
		k[31] ^= 0x80
		return dig(ed25519.Verify(k, f.msg, f.sigPure))
	}},
	{"VerifyMsgLastByteChanged", nil, func() string {
		f := fixtures()
		m := append([]byte{}, f.msg...)
		m[len(m)-1] ^= 1
		return dig(ed25519.Verify(f.pub, m, f.sigPure))
	}},
	{"VerifyCtxGoodOtherKey", nil, func() string {
		f := fixtures()
		sd := bytes.Repeat([]byte{0x43}, 32)
		k := stded.NewKeyFromSeed(sd)
		sig, _ := k.Sign(nil, f.msg, &stded.Options{Context: "ctx"})
		return dig(ed25519.VerifyWithOptions(ed25519.PublicKey(k[32:]), f.msg, sig, &ed25519.Options{Context: "ctx"}))
	}},
	{"VerifyZip215SmallOrder", nil, func() string {
		f := fixtures()
		return dig(ed25519.VerifyWithOptions(f.soKey, f.msg, f.soSig, &ed25519.Options{ZIP215Verify: true}), ed25519.VerifyWithOptions(f.soKey, f.msg, f.soSig, &ed25519.Options{}))
	}},
	{"Batch4Good", nil, func() string { return batchCall(4, -1) }},
	{"Batch4OneBad", nil, func() string { return batchCall(4, 2) }},
	{"Batch5Good", nil, func() string { return batchCall(5, -1) }},
	{"Batch65", nil, func() string { return batchCall(65, -1) }},
	{"Batch3", nil, func() string { return batchCall(3, -1) }},
	{"Batch5FailingEntropy", nil, func() string {
		f := fixtures()
		all, valid, err := ed25519.VerifyBatch(failingReader{}, f.batchPub[:5], f.batchMsg[:5], f.batchSig[:5], &ed25519.Options{})
		return dig(all, valid, err != nil)
	}},
	{"Batch70ShortEntropy", nil, func() string {
		f := fixtures()
		all, valid, err := ed25519.VerifyBatch(bytes.NewReader(make([]byte, 64*16+7)), f.batchPub[:70], f.batchMsg[:70], f.batchSig[:70], &ed25519.Options{})
		return dig(all, valid, err != nil)
	}},
	{"GenerateKey", nil, func() string {
		f := fixtures()
		p, k, e := ed25519.GenerateKey(bytes.NewReader(f.seed))
		return dig(p, k, e)
	}},
	{"NewKeyFromSeed", nil, func() string { f := fixtures(); return dig(ed25519.NewKeyFromSeed(f.seed)) }},
	{"X25519Base", nil, func() string { f := fixtures(); o, e := X25519(f.xScalar, Basepoint); return dig(o, e) }},
	{"X25519Generic", nil, func() string { f := fixtures(); o, e := X25519(f.xScalar, f.xPoint); return dig(o, e) }},
	{"X25519LowOrder", nil, func() string { f := fixtures(); o, e := X25519(f.xScalar, make([]byte, 32)); return dig(o, e != nil) }},
	{"EdPublicKeyToX25519", nil, func() string { f := fixtures(); o, ok := EdPublicKeyToX25519(f.pub); return dig(o, ok) }},
	{"EdPrivateKeyToX25519", nil, func() string { f := fixtures(); return dig(EdPrivateKeyToX25519(f.priv)) }},
	{"SignSharedOptions", nil, func() string {
		f := fixtures()
		s, e := f.priv.Sign(nil, f.msg, sharedOpts)
		return dig(s, e)
	}},
	{"VerifySharedOptions", nil, func() string {
		f := fixtures()
		return dig(ed25519.VerifyWithOptions(f.pub, f.msg, f.sigSharedCtx, sharedOpts))
	}},
	{"PrivateKeyEqual", nil, func() string {
		f := fixtures()
		return dig(f.priv.Equal(f.priv), f.priv.Equal(ed25519.PrivateKey(f.std[:63])), f.pub.Equal(f.pub))
	}},
}

// auxiliary operations: used only by the fill-perturb-recheck histories (not part of the pair /
// triple alphabets): verification under 8 distinct keys, and under a key that is not a point.
var nMainOps int

func init() {
	nMainOps = len(c15ops)
	for k := 0; k < 8; k++ {
		k := k
		c15ops = append(c15ops, c15op{fmt.Sprintf("VerifyGoodKey%d", k), nil, func() string {
			f := fixtures()
			return dig(ed25519.Verify(f.batchPub[10+k], f.batchMsg[10+k], f.batchSig[10+k]))
		}})
	}
	c15ops = append(c15ops, c15op{"VerifyUndecodableKey", nil, func() string {
		f := fixtures()
		key := make([]byte, 32)
		key[0] = 2 // y = 2 is not on the curve
		return dig(ed25519.Verify(key, f.msg, f.sigPure))
	}})
	c15ops = append(c15ops, c15op{"VerifyUndecodableR", nil, func() string {
		f := fixtures()
		sig := append([]byte{}, f.sigPure...)
		for i := 0; i < 32; i++ {
			sig[i] = 0
		}
		sig[0] = 2
		return dig(ed25519.Verify(f.pub, f.msg, sig))
	}})
}

// ---- buffer-reuse operations ----------------------------------------------------------------------------
// A caller may keep ONE buffer per argument and overwrite its contents between calls.  Every family
// below has three operations that differ only in the contents copied into the same shared buffers
// before the library call; the histories over a family therefore present identical slice headers with
// different contents (and different headers with identical contents when mixed with the main ops).

var reuseFamilies = []string{"X25519BaseReuse", "X25519GenericReuse", "ScalarBaseMultReuse", "VerifyReuse", "SignReuse", "BatchReuse", "NewKeyFromSeedReuse", "EdPublicKeyToX25519Reuse", "VerifyCtxReuse", "OptionsObjectReuse", "OptionsFlagReuse"}

var reuseBuf struct {
	scalar, point, seed, key, sig []byte
	msg                           []byte
	priv                          []byte
	in, dst                       [32]byte
	bpub                          []ed25519.PublicKey
	bmsg, bsig                    [][]byte
	ctx                           []byte
}

var reuseOpts, reuseFlagOpts ed25519.Options

func reuseInit() {
	b := &reuseBuf
	if b.scalar != nil {
		return
	}
	b.scalar, b.point, b.seed, b.key, b.sig = make([]byte, 32), make([]byte, 32), make([]byte, 32), make([]byte, 32), make([]byte, 64)
	b.msg = make([]byte, 16)
	b.priv = make([]byte, 64)
	b.ctx = make([]byte, 3)
	for i := 0; i < 4; i++ {
		b.bpub = append(b.bpub, make([]byte, 32))
		b.bmsg = append(b.bmsg, make([]byte, 16))
		b.bsig = append(b.bsig, make([]byte, 64))
	}
}

func reuseBytes(tag string, v, n int) []byte {
	h := sha512.Sum512([]byte(fmt.Sprintf("c15 reuse %s %d", tag, v)))
	return h[:n]
}

func init() {
	for _, fam := range reuseFamilies {
		for v := 0; v < reuseVariants(fam); v++ {
			fam, v := fam, v
			c15ops = append(c15ops, c15op{fmt.Sprintf("%s%d", fam, v), nil, func() string { return reuseCall(fam, v) }})
		}
	}
}

func reuseVariants(fam string) int {
	if fam == "VerifyReuse" {
		return 4
	}
	return 3
}

func reuseCall(fam string, v int) string {
	reuseInit()
	f := fixtures()
	b := &reuseBuf
	switch fam {
	case "X25519BaseReuse":
		copy(b.scalar, reuseBytes("scalar", v, 32))
		o, e := X25519(b.scalar, Basepoint)
		return dig(o, e)
	case "X25519GenericReuse":
		copy(b.scalar, reuseBytes("scalar", v/2, 32))
		copy(b.point, reuseBytes("point", v, 32))
		o, e := X25519(b.scalar, b.point)
		return dig(o, e)
	case "ScalarBaseMultReuse":
		copy(b.in[:], reuseBytes("scalar", v, 32))
		ScalarBaseMult(&b.dst, &b.in)
		return dig(b.dst)
	case "VerifyReuse":
		// 0, 1: two different valid triples (messages of equal length); 2: key/message of 0 with the signature of 1
		k := 20 + v%2
		copy(b.key, f.batchPub[k])
		copy(b.msg, f.batchMsg[k])
		copy(b.sig, f.batchSig[k])
		if v == 2 {
			copy(b.sig, f.batchSig[21])
		}
		if v == 3 {
			// a small-order key in the same key buffer (refused in default mode)
			copy(b.key, f.soKey)
			copy(b.sig, f.soSig)
		}
		return dig(ed25519.Verify(b.key, b.msg, b.sig))
	case "VerifyCtxReuse":
		// same key, message and signature buffers and contents; only the context contents differ
		ctxs := []string{"ctx", "ctX", "ctx"}
		sd := bytes.Repeat([]byte{0x31}, 32)
		sg := ref.Sign(sd, []byte("0123456789abcdef"), ref.Ctx, []byte("ctx"))
		copy(b.key, ref.Public(sd))
		copy(b.msg, "0123456789abcdef")
		copy(b.sig, sg)
		copy(b.ctx, ctxs[v])
		return dig(ed25519.VerifyWithOptions(b.key, b.msg, b.sig, &ed25519.Options{Context: string(b.ctx)}))
	case "OptionsObjectReuse":
		// the caller keeps one Options value and assigns a new context of the same length between calls
		reuseOpts.Context = []string{"tenant-0001", "tenant-0002", "tenant-0001"}[v]
		sg, e := f.priv.Sign(nil, f.msg, &reuseOpts)
		cp := reuseOpts // a by-value copy of a used Options must behave like a fresh one
		cp.Context = "tenant-0003"
		sg2, e2 := f.priv.Sign(nil, f.msg, &cp)
		return dig(sg, e, sg2, e2)
	case "OptionsFlagReuse":
		// one Options value whose ZIP215Verify flag the caller switches between calls (context unchanged);
		// 2: a by-value copy of the used value with the flag cleared
		reuseFlagOpts.Context = "flag-ctx"
		o := &reuseFlagOpts
		switch v {
		case 0:
			o.ZIP215Verify = true
		case 1:
			o.ZIP215Verify = false
		case 2:
			cp := reuseFlagOpts
			cp.ZIP215Verify = false
			o = &cp
		}
		// the identity as key, R = [5]B, S = 5: accepted by ZIP-215 only, whatever the context
		return dig(ed25519.VerifyWithOptions(f.soKey, f.msg, f.soSig, o), o.ZIP215Verify)
	case "SignReuse":
		sd := make([]byte, 32)
		sd[0], sd[1] = byte(20+v/2), 0x15
		copy(b.priv, stded.NewKeyFromSeed(sd))
		copy(b.msg, f.batchMsg[20+v%2])
		return dig(ed25519.Sign(b.priv, b.msg))
	case "NewKeyFromSeedReuse":
		copy(b.seed, reuseBytes("seed", v, 32))
		return dig(ed25519.NewKeyFromSeed(b.seed))
	case "EdPublicKeyToX25519Reuse":
		copy(b.key, f.batchPub[30+v])
		o, ok := EdPublicKeyToX25519(b.key)
		return dig(o, ok)
	case "BatchReuse":
		for i := 0; i < 4; i++ {
			k := 40 + 4*(v%2) + i
			copy(b.bpub[i], f.batchPub[k])
			copy(b.bmsg[i], f.batchMsg[k])
			copy(b.bsig[i], f.batchSig[k])
		}
		if v == 2 {
			copy(b.bsig[1], f.batchSig[41+4])
		}
		all, valid, err := ed25519.VerifyBatch(rt.NewRng(1, "c15"), b.bpub, b.bmsg, b.bsig, &ed25519.Options{})
		return dig(all, valid, err)
	}
	panic("unknown reuse family " + fam)
}

// ---- refused verifications (every early exit of verify, under ctx and ph) -----------------------------
// Each is followed in the histories by "sentinel" calls whose verdict or output would change if the
// refused call left anything behind (a pooled hash state with a domain prefix in it, a memo).

var refusedKinds = []string{"sig63", "S+L", "key-undecodable", "key-small", "R-small", "R-undecodable"}
var refusedVariants = []string{"ctx", "ph"}
var sentinelOps = []string{"VerifyGood", "VerifyCtxGoodOtherKey", "VerifyPhSameCtxAsSignCtx", "VerifyPureOfCtxSignature", "VerifyCtxOfPureSignature", "SignPure", "SignCtx", "Batch4Good"}

func init() {
	for _, vv := range refusedVariants {
		for _, kind := range refusedKinds {
			vv, kind := vv, kind
			c15ops = append(c15ops, c15op{"Refused/" + vv + "/" + kind, nil, func() string { return refusedCall(vv, kind) }})
		}
	}
	c15ops = append(c15ops, c15op{"VerifyPureOfCtxSignature", nil, func() string {
		f := fixtures()
		sig, _ := f.std.Sign(nil, f.msg, &stded.Options{Context: "ctx"})
		return dig(ed25519.Verify(f.pub, f.msg, sig))
	}})
	c15ops = append(c15ops, c15op{"VerifyCtxOfPureSignature", nil, func() string {
		f := fixtures()
		return dig(ed25519.VerifyWithOptions(f.pub, f.msg, f.sigPure, &ed25519.Options{Context: "ctx"}))
	}})
}

var errorOps = []string{"SignBadDigestLen10", "SignBadDigestLen33", "SignCtxTooLong256", "SignCtxTooLong300", "BatchCtxTooLong256", "BatchBadDigest33Swallowed", "X25519BadPointLen5", "X25519BadPointLen31", "BatchArgCounts", "BatchFailingEntropy4"}

func init() {
	mk := func(name string, f func() string) { c15ops = append(c15ops, c15op{name, nil, f}) }
	for _, n := range []int{10, 33} {
		n := n
		mk(fmt.Sprintf("SignBadDigestLen%d", n), func() string {
			f := fixtures()
			s, e := f.priv.Sign(nil, make([]byte, n), &ed25519.Options{Hash: crypto.SHA512})
			return dig(s, e)
		})
	}
	for _, n := range []int{256, 300} {
		n := n
		mk(fmt.Sprintf("SignCtxTooLong%d", n), func() string {
			f := fixtures()
			s, e := f.priv.Sign(nil, f.msg, &ed25519.Options{Context: strings.Repeat("x", n)})
			return dig(s, e)
		})
	}
	mk("BatchCtxTooLong256", func() string {
		f := fixtures()
		all, valid, e := ed25519.VerifyBatch(rt.NewRng(1, "c15"), f.batchPub[:4], f.batchMsg[:4], f.batchSig[:4], &ed25519.Options{Context: strings.Repeat("y", 256)})
		return dig(all, valid, e)
	})
	mk("BatchBadDigest33Swallowed", func() string {
		f := fixtures()
		msgs := [][]byte{f.digest, f.digest, make([]byte, 33), f.digest}
		all, valid, e := ed25519.VerifyBatch(rt.NewRng(1, "c15"), f.batchPub[:4], msgs, f.batchSig[:4], &ed25519.Options{Hash: crypto.SHA512})
		return dig(all, valid, e)
	})
	soBatch := func(zip bool) string {
		f := fixtures()
		pubs := append([]ed25519.PublicKey{ed25519.PublicKey(f.soKey)}, f.batchPub[:3]...)
		msgs := append([][]byte{f.msg}, f.batchMsg[:3]...)
		sigs := append([][]byte{f.soSig}, f.batchSig[:3]...)
		all, valid, e := ed25519.VerifyBatch(rt.NewRng(1, "c15"), pubs, msgs, sigs, &ed25519.Options{ZIP215Verify: zip})
		return dig(all, valid, e)
	}
	mk("Batch4SmallOrderKeyZip215", func() string { return soBatch(true) })
	mk("Batch4SmallOrderKeyDefault", func() string { return soBatch(false) })
	// one triple with a small-order R that satisfies the cofactored equation (S = h*a for the honest key),
	// verified under ZIP-215 rules and under default rules by SEPARATE calls (single and in a batch of 4)
	soR := func(zip, batch bool) string {
		f := fixtures()
		R := make([]byte, 32)
		R[0] = 1 // the neutral element
		a, _ := ref.ExpandSeed(f.seed)
		hh := ref.HashModL(R, f.pub, f.msg)
		S := new(big.Int).Mul(hh, a)
		S.Mod(S, ref.L)
		sig := append(append([]byte{}, R...), ref.ToLE(S, 32)...)
		o := &ed25519.Options{ZIP215Verify: zip}
		if !batch {
			return dig(ed25519.VerifyWithOptions(f.pub, f.msg, sig, o))
		}
		pubs := append([]ed25519.PublicKey{f.pub}, f.batchPub[:3]...)
		msgs := append([][]byte{f.msg}, f.batchMsg[:3]...)
		sigs := append([][]byte{sig}, f.batchSig[:3]...)
		all, valid, e := ed25519.VerifyBatch(rt.NewRng(1, "c15"), pubs, msgs, sigs, o)
		return dig(all, valid, e)
	}
	mk("VerifySmallOrderRZip215", func() string { return soR(true, false) })
	mk("VerifySmallOrderRDefault", func() string { return soR(false, false) })
	mk("Batch4SmallOrderRZip215", func() string { return soR(true, true) })
	mk("Batch4SmallOrderRDefault", func() string { return soR(false, true) })
	mk("Batch64BadLast", func() string { return batchCall(64, 63) })
	mk("Batch64Bad60", func() string { return batchCall(64, 60) })
	mk("Batch8ThirdCtx", func() string {
		f := fixtures()
		pubs, msgs, sigs := parkedEntries(f, 77, "third-ctx")
		all, valid, e := ed25519.VerifyBatch(rt.NewRng(1, "c15"), pubs, msgs, sigs, &ed25519.Options{Context: "third-ctx"})
		return dig(all, valid, e)
	})
	mk("BatchArgCounts", func() string {
		f := fixtures()
		all, valid, e := ed25519.VerifyBatch(rt.NewRng(1, "c15"), f.batchPub[:4], f.batchMsg[:3], f.batchSig[:4], &ed25519.Options{})
		return dig(all, valid, e)
	})
	mk("BatchFailingEntropy4", func() string {
		f := fixtures()
		all, valid, e := ed25519.VerifyBatch(failingReader{}, f.batchPub[:4], f.batchMsg[:4], f.batchSig[:4], &ed25519.Options{})
		return dig(all, valid, e)
	})
	for _, n := range []int{5, 31} {
		n := n
		mk(fmt.Sprintf("X25519BadPointLen%d", n), func() string {
			f := fixtures()
			o, e := X25519(f.xScalar, make([]byte, n))
			return dig(o, e)
		})
	}
}

func refusedCall(vv, kind string) string {
	f := fixtures()
	so := &stded.Options{Context: "ctx"}
	o := &ed25519.Options{Context: "ctx"}
	msg := f.msg
	if vv == "ph" {
		so.Hash, o.Hash, msg = crypto.SHA512, crypto.SHA512, f.digest
	}
	sig, _ := f.std.Sign(nil, msg, so)
	key := append([]byte{}, f.pub...)
	switch kind {
	case "sig63":
		sig = sig[:63]
	case "S+L":
		S := ref.LE(sig[32:])
		S.Add(S, ref.L)
		copy(sig[32:], ref.ToLE(S, 32))
	case "key-undecodable":
		key = make([]byte, 32)
		key[0] = 2
	case "key-small":
		key = append([]byte{}, f.soKey...)
		sig = append([]byte{}, f.soSig...)
	case "R-small":
		copy(sig[:32], f.soKey) // the identity as R
	case "R-undecodable":
		for i := 0; i < 32; i++ {
			sig[i] = 0
		}
		sig[0] = 2
	}
	return dig(ed25519.VerifyWithOptions(key, msg, sig, o))
}

type failingReader struct{}

func (failingReader) Read(p []byte) (int, error) { return 0, fmt.Errorf("entropy source failed") }

// ---- child process protocol -----------------------------------------------------------------------------

type c15req struct {
	Mode       string         `json:"mode"` // "seq" | "sched" | "race"
	Ops        []int          `json:"ops,omitempty"`
	Threads    [][]int        `json:"threads,omitempty"`
	Choices    []int          `json:"choices,omitempty"`
	PointVars  []string       `json:"point_vars,omitempty"`
	Stride     map[string]int `json:"stride,omitempty"`
	Tracking   bool           `json:"tracking,omitempty"`
	Reps       int            `json:"reps,omitempty"`
	NoGC       bool           `json:"nogc,omitempty"`       // mode "seq": garbage collector off (pools keep their objects)
	Parked     int            `json:"parked,omitempty"`     // mode "parked": number of calls in flight
	Gomaxprocs int            `json:"gomaxprocs,omitempty"` // mode "parked"
}

type c15acc struct {
	Reads, Writes int
	Changed       bool
	FirstSite     string
	WriteSite     string
}

type c15resp struct {
	Results  [][]string             `json:"results"` // per thread, per call (seq: one thread)
	Diffs    []string               `json:"diffs"`   // globals whose content differs from the initial snapshot at the end
	StepDiff [][]string             `json:"step_diffs,omitempty"`
	Snap     string                 `json:"snap"`
	Points   []rt.Point             `json:"points,omitempty"`
	Acc      []map[string]c15acc    `json:"acc,omitempty"`
	Diverged string                 `json:"diverged,omitempty"`
	NGlobals int                    `json:"nglobals"`
	SyncUses []string               `json:"sync_uses,omitempty"`
	Extra    map[string]interface{} `json:"extra,omitempty"`
}

func c15Child(payload []byte) interface{} {
	var req c15req
	if err := json.Unmarshal(payload, &req); err != nil {
		return map[string]string{"error": err.Error()}
	}
	fixtures()
	init0 := rt.Snapshot()
	resp := &c15resp{NGlobals: len(init0), SyncUses: rt.SyncUses}
	switch req.Mode {
	case "seq":
		holdErrors = true
		if req.NoGC {
			debug.SetGCPercent(-1)
			runtime.GOMAXPROCS(1)
		}
		var res []string
		for _, o := range req.Ops {
			res = append(res, c15ops[o].run())
			resp.StepDiff = append(resp.StepDiff, rt.SnapshotDiff(init0, rt.Snapshot()))
		}
		resp.Results = [][]string{res}
	case "sched":
		bodies := make([][]func(), len(req.Threads))
		resp.Results = make([][]string, len(req.Threads))
		for ti, th := range req.Threads {
			resp.Results[ti] = make([]string, len(th))
			for ci, o := range th {
				ti, ci, o := ti, ci, o
				bodies[ti] = append(bodies[ti], func() { resp.Results[ti][ci] = c15ops[o].run() })
			}
		}
		s := rt.NewSched(len(req.Threads), req.Choices, req.PointVars, req.Stride)
		s.SetTracking(req.Tracking)
		s.Run(bodies)
		resp.Points = s.Points
		resp.Diverged = s.Diverged
		for _, m := range s.Acc {
			am := map[string]c15acc{}
			for v, a := range m {
				ws := ""
				if a.WriteSite >= 0 {
					ws = rt.SiteName(a.WriteSite)
				}
				fs := ""
				if a.FirstSite >= 0 {
					fs = rt.SiteName(a.FirstSite)
				}
				am[v] = c15acc{a.Reads, a.Writes, a.Changed, fs, ws}
			}
			resp.Acc = append(resp.Acc, am)
		}
	case "parked":
		// req.Parked honest batches (8 entries, context "parked-ctx") are IN FLIGHT, each blocked inside its
		// entropy reader, while req.Ops run to completion; then they are released
		f := fixtures()
		if req.Gomaxprocs > 0 {
			runtime.GOMAXPROCS(req.Gomaxprocs)
		}
		type pe struct {
			pubs       []ed25519.PublicKey
			msgs, sigs [][]byte
		}
		pes := make([]pe, req.Parked)
		for i := range pes {
			pes[i].pubs, pes[i].msgs, pes[i].sigs = parkedEntries(f, i, "parked-ctx")
		}
		parked := make([]string, req.Parked)
		entered := make(chan int, req.Parked)
		release := make(chan struct{})
		var wg sync.WaitGroup
		for i := 0; i < req.Parked; i++ {
			wg.Add(1)
			go func(i int) {
				defer wg.Done()
				rd := &parkReader{entered: entered, release: release, r: rt.NewRng(int64(i)+5, "parked")}
				all, valid, err := ed25519.VerifyBatch(rd, pes[i].pubs, pes[i].msgs, pes[i].sigs, &ed25519.Options{Context: "parked-ctx"})
				parked[i] = fmt.Sprint(all, valid, err)
			}(i)
		}
		for i := 0; i < req.Parked; i++ {
			<-entered
		}
		var res []string
		for _, o := range req.Ops {
			res = append(res, c15ops[o].run())
		}
		close(release)
		wg.Wait()
		resp.Results = [][]string{res, parked}
		resp.Extra = map[string]interface{}{"parked_expected": fmt.Sprint(true, []bool{true, true, true, true, true, true, true, true}, error(nil))}
	case "race":
		// free-running goroutines (uninstrumented -race build); the race detector reports on stderr
		reps := req.Reps
		if reps <= 0 {
			reps = 50
		}
		resp.Results = make([][]string, len(req.Threads))
		for r := 0; r < reps; r++ {
			var wg sync.WaitGroup
			start := make(chan bool)
			for ti, th := range req.Threads {
				wg.Add(1)
				go func(ti int, th []int) {
					defer wg.Done()
					<-start
					var res []string
					for _, o := range th {
						res = append(res, c15ops[o].run())
					}
					resp.Results[ti] = res
				}(ti, th)
			}
			close(start)
			wg.Wait()
		}
	}
	end := rt.Snapshot()
	resp.Diffs = rt.SnapshotDiff(init0, end)
	resp.Snap = fmt.Sprintf("%x", rt.SnapshotDigest(end))
	return resp
}

func c15call(req c15req) (*c15resp, string, error) {
	out, stderr, err := rt.RunChild("c15", req, nil)
	if err != nil {
		return nil, stderr, err
	}
	var resp c15resp
	if e := json.Unmarshal(out, &resp); e != nil {
		return nil, stderr, e
	}
	return &resp, stderr, nil
}

var soloMemo = map[int]string{}

func soloResult(c *rt.Ctx, op int) (string, bool) {
	if r, ok := soloMemo[op]; ok {
		return r, true
	}
	resp, stderr, err := c15call(c15req{Mode: "seq", Ops: []int{op}})
	if err != nil {
		c.Fail("solo run of %s failed: %v %s", c15ops[op].name, err, tail(stderr))
		return "", false
	}
	c.Step(1)
	soloMemo[op] = resp.Results[0][0]
	return soloMemo[op], true
}

func tail(s string) string {
	if len(s) > 1500 {
		return s[len(s)-1500:]
	}
	return s
}

func opNames(ops []int) string {
	var n []string
	for i := 0; i < len(ops); {
		j := i
		for j < len(ops) && ops[j] == ops[i] {
			j++
		}
		if j-i > 3 {
			n = append(n, fmt.Sprintf("%s x%d", c15ops[ops[i]].name, j-i))
		} else {
			for k := i; k < j; k++ {
				n = append(n, c15ops[ops[k]].name)
			}
		}
		i = j
	}
	if len(n) > 40 {
		n = append(n[:40], fmt.Sprintf("... (%d calls)", len(ops)))
	}
	return strings.Join(n, ",")
}

// ---- E2: histories ------------------------------------------------------------------------------------------

func jobC15hist(c *rt.Ctx) {
	c.Require("history/len1", "history/len2")
	depth := 2
	if c.Thorough() {
		depth = 3
	}
	n := nMainOps
	var seqs [][]int
	var gen func(prefix []int)
	gen = func(prefix []int) {
		if len(prefix) > 0 {
			seqs = append(seqs, append([]int{}, prefix...))
		}
		if len(prefix) == depth {
			return
		}
		for o := 0; o < n; o++ {
			gen(append(prefix, o))
		}
	}
	gen(nil)
	// deeper histories over a reduced alphabet (caches with eviction, counters, state that needs
	// several distinct calls to build up): depth <= 4 (thorough 6) over 6 operations
	deepOps := []string{"VerifyGood", "VerifyCtxGoodOtherKey", "VerifyBadSigSameKeyMsg", "SignPure", "Batch4OneBad", "Batch5FailingEntropy"}
	deepDepth := 4
	if c.Thorough() {
		deepDepth = 6
	}
	var dix []int
	for _, nme := range deepOps {
		for i, o := range c15ops {
			if o.name == nme {
				dix = append(dix, i)
			}
		}
	}
	var genDeep func(prefix []int)
	genDeep = func(prefix []int) {
		if len(prefix) > depth {
			seqs = append(seqs, append([]int{}, prefix...))
		}
		if len(prefix) == deepDepth {
			return
		}
		for _, o := range dix {
			genDeep(append(prefix, o))
		}
	}
	genDeep(nil)
	c.Require(fmt.Sprintf("history/len%d", deepDepth))
	// fill - perturb - recheck: N distinct successful verifications (N = 1..8), one perturbing call,
	// then every one of the N verifications again (bounded caches with replacement, "first N calls"
	// state, slots corrupted by a failing call)
	opIx := func(name string) int {
		for i, o := range c15ops {
			if o.name == name {
				return i
			}
		}
		panic("unknown op " + name)
	}
	perturb := []string{"VerifyUndecodableKey", "VerifyUndecodableR", "VerifyKeySignBitFlipped", "VerifyBadSigSameKeyMsg", "Batch4OneBad", "Batch5FailingEntropy", "VerifyZip215SmallOrder", "SignPure", "X25519LowOrder", "Batch65"}
	for nfill := 1; nfill <= 8; nfill++ {
		for _, pn := range perturb {
			var sq []int
			for k := 0; k < nfill; k++ {
				sq = append(sq, opIx(fmt.Sprintf("VerifyGoodKey%d", k)))
			}
			sq = append(sq, opIx(pn))
			for k := 0; k < nfill; k++ {
				sq = append(sq, opIx(fmt.Sprintf("VerifyGoodKey%d", k)))
			}
			seqs = append(seqs, sq)
		}
	}
	c.Require("history/fill-perturb-recheck")
	// buffer-reuse histories: within each family all ordered sequences of 2 (thorough: 3) of its three
	// content variants, and each variant between two calls of the matching main operation
	reuseDepth := 2
	if c.Thorough() {
		reuseDepth = 3
	}
	nReuse := 0
	for _, fam := range reuseFamilies {
		var ix []int
		for v := 0; v < reuseVariants(fam); v++ {
			ix = append(ix, opIx(fmt.Sprintf("%s%d", fam, v)))
		}
		var genR func(prefix []int)
		genR = func(prefix []int) {
			if len(prefix) >= 2 {
				seqs = append(seqs, append([]int{}, prefix...))
				nReuse++
			}
			if len(prefix) == reuseDepth {
				return
			}
			for _, o := range ix {
				genR(append(prefix, o))
			}
		}
		genR(nil)
	}
	c.Require("history/buffer-reuse")
	// refused verification, then a sentinel (and refused, refused', sentinel in the thorough tier)
	for _, vv := range refusedVariants {
		for _, kind := range refusedKinds {
			for _, sn := range sentinelOps {
				seqs = append(seqs, []int{opIx("Refused/" + vv + "/" + kind), opIx(sn)})
				if c.Thorough() {
					for _, kind2 := range refusedKinds {
						seqs = append(seqs, []int{opIx("Refused/" + vv + "/" + kind), opIx("Refused/ctx/" + kind2), opIx(sn)})
					}
				}
			}
		}
	}
	c.Require("history/refused-then-sentinel")
	// every ordered pair of failing calls (errors are kept by the harness: a later failure must not
	// rewrite an error handed out earlier), each followed by nothing / by a succeeding call
	for _, a := range errorOps {
		for _, b := range errorOps {
			seqs = append(seqs, []int{opIx(a), opIx(b), opIx("VerifyGood")})
		}
	}
	c.Require("history/error-pairs")
	// long runs: every main operation 1030 times in one process (past its 256th and 1024th call), the
	// whole alphabet in rotation for 1030 calls, and (thorough) the cheap operations 66000 times (past
	// the 65536th call): counters, pools and caches that wrap, fill up or evict only after many calls
	longN := 1030
	rep := func(o, k int) []int {
		out := make([]int, k)
		for i := range out {
			out[i] = o
		}
		return out
	}
	for o := 0; o < n; o++ {
		seqs = append(seqs, rep(o, longN))
	}
	rot := make([]int, longN)
	for i := range rot {
		rot[i] = i % n
	}
	seqs = append(seqs, rot)
	if c.Thorough() {
		for _, nme := range []string{"VerifyGood", "SignPure", "Batch4OneBad", "VerifyBadSigSameKeyMsg", "Batch5FailingEntropy"} {
			seqs = append(seqs, rep(opIx(nme), 66000))
		}
	}
	c.Require("history/long-run")
	// sandwiches: an operation, then d-1 other calls, then a related operation that must not see what the
	// first one left d calls earlier (d around 256; thorough: around 65536) - a ZIP-215 batch holding a
	// small-order key, fillers, the same entries in default mode (and the other way round); a failing call,
	// fillers, a succeeding one. Run with the garbage collector on and off (pooled objects survive only
	// without collections) - the sandwich histories are marked by a leading -1 / -2 in the sequence.
	sand := [][2]string{{"Batch4SmallOrderKeyZip215", "Batch4SmallOrderKeyDefault"}, {"Batch4SmallOrderKeyDefault", "Batch4SmallOrderKeyZip215"}, {"Batch5FailingEntropy", "Batch4OneBad"}, {"VerifyZip215SmallOrder", "Batch4SmallOrderKeyDefault"}}
	dists := []int{255, 256, 257}
	if c.Thorough() {
		dists = append(dists, 65535, 65536, 65537)
	}
	for _, sw := range sand {
		for _, d := range dists {
			for _, filler := range []string{"Batch4Good", "VerifyGood"} {
				for _, nogc := range []int{-1, -2} {
					if d > 1000 && filler == "VerifyGood" {
						continue
					}
					sq := []int{nogc, opIx(sw[0])}
					sq = append(sq, rep(opIx(filler), d-1)...)
					sq = append(sq, opIx(sw[1]))
					seqs = append(seqs, sq)
				}
			}
		}
	}
	c.Require("history/sandwich")
	// streaks: N consecutive calls of one failing kind (N = 2..9, 15..17, 31..33), then each sentinel: a
	// counter of consecutive failures / refusals that changes behaviour at a threshold
	for _, failing := range []string{"Batch4OneBad", "Batch64BadLast", "VerifyBad", "Batch5FailingEntropy", "BatchCtxTooLong256"} {
		for _, nrep := range []int{2, 3, 4, 5, 6, 7, 8, 9, 15, 16, 17, 31, 32, 33} {
			for _, sn := range []string{"Batch5FailingEntropy", "Batch4Good", "Batch65", "Batch4OneBad", "VerifyGood", "BatchCtxTooLong256"} {
				if !c.Thorough() && nrep > 9 && sn != "Batch5FailingEntropy" && sn != "Batch4OneBad" {
					continue
				}
				sq := append(rep(opIx(failing), nrep), opIx(sn))
				seqs = append(seqs, sq)
			}
		}
	}
	// the same triple under one rule set, then under the other (every ordered pair and triple of the four
	// small-order-R operations): an acceptance under ZIP-215 rules must not carry over to default rules
	{
		names := []string{"VerifySmallOrderRZip215", "VerifySmallOrderRDefault", "Batch4SmallOrderRZip215", "Batch4SmallOrderRDefault"}
		for _, a := range names {
			for _, b := range names {
				seqs = append(seqs, []int{opIx(a), opIx(b)})
				for _, d := range names {
					seqs = append(seqs, []int{opIx(a), opIx(b), opIx(d)})
				}
			}
		}
	}
	c.Require("history/streak")
	// calls in flight: k honest batches parked inside their entropy readers (k = 1..6, 8, 16, 17, 63..65, 129, 257) at GOMAXPROCS 1,
	// 16 and 32 while a forged-last-entry batch, a forged-entry-60 batch, a batch under a third context and
	// a signature run to completion; every result == solo, every parked batch all-valid afterwards
	c.Require("history/calls-in-flight")
	for _, g := range []int{1, 16, 32} {
		for _, k := range []int{1, 2, 3, 4, 5, 6, 8, 16, 17, 63, 64, 65, 129, 257} {
			if k > 8 && g != 16 && !c.Thorough() {
				continue
			}
			if !c.Take() {
				continue
			}
			ops := []int{opIx("Batch4OneBad"), opIx("Batch64BadLast"), opIx("Batch64Bad60"), opIx("Batch8ThirdCtx"), opIx("SignCtx"), opIx("Batch64BadLast")}
			resp, stderr, err := c15call(c15req{Mode: "parked", Ops: ops, Parked: k, Gomaxprocs: g})
			c.Class("history/calls-in-flight")
			c.Distinct(fmt.Sprintf("parked %d %d", g, k), true)
			if err != nil {
				c.Violation("C15 calls-in-flight child-crash", fmt.Sprintf("%d calls in flight (GOMAXPROCS=%d), then %s: the process failed: %v", k, g, opNames(ops), err), map[string]interface{}{"stderr": tail(stderr)})
				continue
			}
			c.Step(len(ops) + k)
			for i, o := range ops {
				want, ok := soloResult(c, o)
				if !ok {
					return
				}
				if resp.Results[0][i] != want {
					c.Violation(fmt.Sprintf("C15 calls-in-flight result op=%s", c15ops[o].name), fmt.Sprintf("with %d other VerifyBatch calls in flight (GOMAXPROCS=%d), call %d (%s) returned %s; alone it returns %s", k, g, i, c15ops[o].name, resp.Results[0][i], want),
						map[string]interface{}{"in_flight": k, "gomaxprocs": g, "call": c15ops[o].name})
				}
			}
			for i, r := range resp.Results[1] {
				if r != fmt.Sprint(resp.Extra["parked_expected"]) {
					c.Violation("C15 calls-in-flight parked call", fmt.Sprintf("an honest batch that was in flight while %s ran (with %d other calls in flight, GOMAXPROCS=%d) returned %s", opNames(ops), k-1, g, r), map[string]interface{}{"in_flight": k, "gomaxprocs": g, "parked_call": i})
					break
				}
			}
		}
	}
	sort.SliceStable(seqs, func(i, j int) bool { return len(seqs[i]) < len(seqs[j]) })
	states := map[string]bool{}
	for _, seq := range seqs {
		if !c.Take() {
			continue
		}
		nogc := false
		if seq[0] < 0 {
			nogc = seq[0] == -2
			seq = seq[1:]
		}
		resp, stderr, err := c15call(c15req{Mode: "seq", Ops: seq, NoGC: nogc})
		if err != nil {
			c.Violation("C15 history child-crash", fmt.Sprintf("history %s: the process failed: %v", opNames(seq), err), map[string]interface{}{"history": opNames(seq), "stderr": tail(stderr)})
			continue
		}
		c.Step(len(seq))
		if len(seq) >= 3 && len(seq) <= 40 && seq[0] == seq[1] && seq[len(seq)-2] == seq[0] && (len(seq) > deepDepth || seq[len(seq)-1] != seq[0]) && !strings.Contains(c15ops[seq[0]].name, "Reuse") {
			c.Class("history/streak")
		} else if len(seq) > 200 && seq[0] != seq[1] {
			c.Class("history/sandwich")
		} else if len(seq) >= longN {
			c.Class("history/long-run")
		} else if len(seq) == 3 && (strings.Contains(c15ops[seq[0]].name, "Bad") || strings.Contains(c15ops[seq[0]].name, "TooLong")) {
			c.Class("history/error-pairs")
		} else if strings.HasPrefix(c15ops[seq[0]].name, "Refused/") {
			c.Class("history/refused-then-sentinel")
		} else if strings.Contains(c15ops[seq[0]].name, "Reuse") {
			c.Class("history/buffer-reuse")
		} else if len(seq) > deepDepth {
			c.Class("history/fill-perturb-recheck")
		} else {
			c.Class(fmt.Sprintf("history/len%d", len(seq)))
		}
		c.Distinct(fmt.Sprint(nogc, seq), len(seq) > 1)
		states[resp.Snap] = true
		c.ExtraMax("max_globals_registered", int64(resp.NGlobals))
		for i, o := range seq {
			want, ok := soloResult(c, o)
			if !ok {
				return
			}
			if resp.Results[0][i] != want {
				c.Violation(fmt.Sprintf("C15 history result op=%s", c15ops[o].name), fmt.Sprintf("history %s: call %d (%s) returned %s, alone in a fresh process it returns %s", opNames(seq), i, c15ops[o].name, resp.Results[0][i], want),
					map[string]interface{}{"history": opNames(seq), "call": i, "observed": resp.Results[0][i], "solo": want})
			}
			if len(resp.StepDiff[i]) > 0 {
				if len(resp.SyncUses) > 0 {
					// the library synchronises something: a state change alone proves nothing
					// (results are still compared; races are left to the race detector pass)
					c.Class("history/state-change-under-synchronisation")
					continue
				}
				c.Violation(fmt.Sprintf("C15 race-by-self-concurrency var=%s", resp.StepDiff[i][0]), fmt.Sprintf("history %s: call %d (%s) writes package-level state %v; the library contains no synchronisation at all, so two concurrent calls of %s race on it", opNames(seq), i, c15ops[o].name, resp.StepDiff[i], c15ops[o].name),
					map[string]interface{}{"history": opNames(seq), "call": i, "changed": resp.StepDiff[i]})
				break
			}
		}
		if c.WantSample() && len(seq) == 2 {
			c.Sample(map[string]interface{}{"history": opNames(seq), "results": resp.Results[0], "global_state_digest": resp.Snap, "globals": resp.NGlobals})
		}
	}
	c.Extra("distinct_global_states_this_shard", int64(len(states)))
}

// ---- E3: schedules ------------------------------------------------------------------------------------------

type scenario struct{ threads [][]int }

func c15scenarios(thorough bool) []scenario {
	var out []scenario
	n := nMainOps
	for a := 0; a < n; a++ {
		for b := a; b < n; b++ {
			out = append(out, scenario{[][]int{{a}, {b}}})
		}
	}
	// triples: one call each, chosen to mix batch / sign / x25519 / keygen
	ix := func(name string) int {
		for i, o := range c15ops {
			if o.name == name {
				return i
			}
		}
		panic("unknown op " + name)
	}
	tr := [][3]string{{"SignPure", "VerifyGood", "Batch4Good"}, {"Batch4Good", "Batch4OneBad", "Batch65"}, {"Batch65", "Batch65", "Batch65"}, {"SignPure", "SignPure", "SignPure"},
		{"X25519Base", "X25519Generic", "X25519LowOrder"}, {"GenerateKey", "NewKeyFromSeed", "SignPure"}, {"Batch4Good", "X25519Base", "VerifyGood"}, {"Batch4OneBad", "Batch5Good", "Batch3"},
		{"SignCtx", "SignPh", "VerifyZip215SmallOrder"}, {"EdPublicKeyToX25519", "EdPrivateKeyToX25519", "PrivateKeyEqual"}, {"Batch65", "X25519Base", "SignPure"}, {"Batch4Good", "Batch4Good", "Batch4Good"}}
	if thorough {
		tr = append(tr, [][3]string{{"SignPure", "SignCtx", "SignPh"}, {"VerifyGood", "VerifyBad", "VerifyBadSigSameKeyMsg"}, {"Batch4Good", "Batch5Good", "Batch3"}, {"Batch4OneBad", "Batch65", "GenerateKey"},
			{"NewKeyFromSeed", "X25519Base", "X25519Generic"}, {"X25519LowOrder", "EdPublicKeyToX25519", "EdPrivateKeyToX25519"}, {"PrivateKeyEqual", "SignPure", "Batch4Good"}, {"Batch65", "VerifyGood", "X25519Base"},
			{"SignPh", "Batch4OneBad", "X25519Generic"}, {"GenerateKey", "GenerateKey", "GenerateKey"}, {"X25519Base", "X25519Base", "X25519Base"}, {"VerifyKeySignBitFlipped", "VerifyGood", "VerifyMsgLastByteChanged"}}...)
	}
	for _, t := range tr {
		out = append(out, scenario{[][]int{{ix(t[0])}, {ix(t[1])}, {ix(t[2])}}})
	}
	// two threads x two calls
	for _, q := range [][4]string{{"Batch4Good", "Batch65", "Batch4OneBad", "Batch5Good"}, {"Batch65", "Batch4Good", "Batch4Good", "Batch65"}, {"X25519Base", "X25519Generic", "X25519Generic", "X25519Base"},
		{"VerifyBad", "VerifyGood", "Batch4OneBad", "Batch4Good"}, {"X25519LowOrder", "X25519Generic", "X25519LowOrder", "X25519Base"}, {"SignPure", "VerifyGood", "SignCtx", "VerifyZip215SmallOrder"},
		{"GenerateKey", "NewKeyFromSeed", "NewKeyFromSeed", "GenerateKey"}, {"Batch3", "Batch65", "Batch65", "Batch3"}, {"Batch4OneBad", "Batch4Good", "VerifyBad", "VerifyGood"},
		{"SignPh", "SignPure", "Batch5Good", "Batch65"}, {"EdPublicKeyToX25519", "X25519Base", "EdPrivateKeyToX25519", "X25519Generic"}, {"VerifyGood", "VerifyBadSigSameKeyMsg", "VerifyKeySignBitFlipped", "VerifyGood"}} {
		out = append(out, scenario{[][]int{{ix(q[0]), ix(q[1])}, {ix(q[2]), ix(q[3])}}})
	}
	// a call that is refused (argument validation, failing entropy, bad digest) next to a call that is
	// under way: what the refused call releases, resets or reports must not touch the other call
	for _, e := range errorOps {
		for _, m := range []string{"Batch4OneBad", "Batch5Good", "Batch65", "SignPure", "SignCtx", "VerifyGood"} {
			out = append(out, scenario{[][]int{{ix(e)}, {ix(m)}}})
		}
	}
	// history then concurrency: every operation once, followed by concurrent verifications / signatures
	for o := 0; o < nMainOps; o++ {
		out = append(out, scenario{[][]int{{o, ix("VerifyGood")}, {ix("VerifyGood"), ix("SignPure")}}})
	}
	return out
}

func scenName(s scenario) string {
	var p []string
	for _, t := range s.threads {
		p = append(p, "["+opNames(t)+"]")
	}
	return strings.Join(p, " || ")
}

func log2Multinomial(ns []int) float64 {
	// log2( (sum n)! / prod n! ) via lgamma-free summation
	total := 0
	for _, n := range ns {
		total += n
	}
	l := 0.0
	k := 0
	for _, n := range ns {
		for i := 1; i <= n; i++ {
			k++
			l += log2f(float64(k)) - log2f(float64(i))
		}
	}
	_ = total
	return l
}

func log2f(x float64) float64 { return math.Log2(x) }

func jobC15sched(c *rt.Ctx) {
	c.Require("scenario/2x1", "scenario/3x1", "scenario/2x2")
	bound := 2
	if c.Thorough() {
		bound = 3
	}
	maxExec := 400
	if c.Thorough() {
		maxExec = 3000
	}
	for _, sc := range c15scenarios(c.Thorough()) {
		if !c.Take() {
			continue
		}
		name := scenName(sc)
		kind := fmt.Sprintf("scenario/%dx%d", len(sc.threads), len(sc.threads[0]))
		c.Class(kind)
		c.Distinct(name, true)
		// solo results
		want := make([][]string, len(sc.threads))
		okSolo := true
		for ti, th := range sc.threads {
			for _, o := range th {
				r, ok := soloResult(c, o)
				okSolo = okSolo && ok
				want[ti] = append(want[ti], r)
			}
		}
		if !okSolo {
			return
		}
		// (1) discovery run: thread 0 to completion, then thread 1, ... with write tracking
		disc, stderr, err := c15call(c15req{Mode: "sched", Threads: sc.threads, Tracking: true})
		if err != nil {
			c.Violation("C15 sched child-crash", fmt.Sprintf("scenario %s: the process failed: %v", name, err), map[string]interface{}{"scenario": name, "stderr": tail(stderr)})
			continue
		}
		c.Step(1)
		written := map[string]string{} // var -> "thread i at site"
		accessedBy := map[string][]int{}
		var perThreadAccesses []int
		for ti, m := range disc.Acc {
			total := 0
			for v, a := range m {
				total += a.Reads + a.Writes
				accessedBy[v] = append(accessedBy[v], ti)
				if a.Writes > 0 || a.Changed {
					site := a.WriteSite
					if site == "" {
						site = a.FirstSite
					}
					written[v] = fmt.Sprintf("thread %d (%s) at %s", ti, opNames(sc.threads[ti]), site)
				}
			}
			perThreadAccesses = append(perThreadAccesses, total)
		}
		c.Extra("access_events", int64(sum(perThreadAccesses)))
		// race rule: the library uses no synchronisation, so a variable written by one call and
		// accessed by a concurrent call is a data race whatever the schedule
		var wvars []string
		for v := range written {
			wvars = append(wvars, v)
		}
		sort.Strings(wvars)
		usesSync := len(disc.SyncUses) > 0
		if usesSync {
			c.Class("scenario/library-uses-synchronisation")
		}
		for _, v := range wvars {
			if len(accessedBy[v]) >= 2 && !usesSync {
				var other []string
				for _, ti := range accessedBy[v] {
					a := disc.Acc[ti][v]
					other = append(other, fmt.Sprintf("thread %d (%s): %d reads, %d writes, first at %s", ti, opNames(sc.threads[ti]), a.Reads, a.Writes, a.FirstSite))
				}
				c.Violation(fmt.Sprintf("C15 race var=%s", v), fmt.Sprintf("scenario %s: package-level variable %s is written by %s and accessed by concurrent calls without synchronisation: %v", name, v, written[v], other),
					map[string]interface{}{"scenario": name, "variable": v, "writer": written[v], "accesses": other})
			}
		}
		// (2) exploration: preemption-bounded DFS over call boundaries and accesses to written variables
		stride := map[string]int{}
		if usesSync {
			// a suspended thread could hold a lock: interleave at call boundaries only
			wvars = nil
		}
		for _, v := range wvars {
			cnt := 0
			for _, m := range disc.Acc {
				if a, ok := m[v]; ok {
					cnt += a.Reads + a.Writes
				}
			}
			if cnt > 24 {
				stride[v] = cnt / 24
			}
		}
		execs := 0
		outcomes := map[string]bool{}
		capped := false
		var firstBad *c15resp
		var firstBadChoices []int
		var explore func(prefix []int)
		explore = func(prefix []int) {
			if execs >= maxExec || firstBad != nil {
				capped = capped || execs >= maxExec
				return
			}
			x, stderr, err := c15call(c15req{Mode: "sched", Threads: sc.threads, Choices: prefix, PointVars: wvars, Stride: stride})
			execs++
			c.Step(1)
			if err != nil {
				c.Violation("C15 sched child-crash", fmt.Sprintf("scenario %s schedule %v: the process failed: %v", name, prefix, err), map[string]interface{}{"scenario": name, "schedule": fmt.Sprint(prefix), "stderr": tail(stderr)})
				firstBad = &c15resp{}
				return
			}
			if x.Diverged != "" {
				c.Fail("scenario %s: replay of schedule prefix %v diverged: %s", name, prefix, x.Diverged)
				firstBad = x
				return
			}
			outcomes[fmt.Sprint(x.Results, x.Diffs)] = true
			bad := len(x.Diffs) > 0 && !usesSync
			for ti := range want {
				for ci := range want[ti] {
					if x.Results[ti][ci] != want[ti][ci] {
						bad = true
					}
				}
			}
			choices := make([]int, len(x.Points))
			for i, p := range x.Points {
				choices[i] = p.Chosen
			}
			if bad {
				firstBad, firstBadChoices = x, choices
				return
			}
			cost := 0
			for i, p := range x.Points {
				preemptive := p.Site != -1 && p.Site != -3 && len(p.Enabled) > 0 && p.Enabled[0] == p.Thread
				if i >= len(prefix) {
					for alt := 1; alt < len(p.Enabled); alt++ {
						cc := cost
						if preemptive {
							cc++
						}
						if cc > bound {
							continue
						}
						explore(append(append([]int{}, choices[:i]...), alt))
					}
				}
				if preemptive && p.Chosen != 0 {
					cost++
				}
			}
		}
		explore(nil)
		if capped {
			c.NotExhaustive(fmt.Sprintf("scenario %s: execution cap %d reached (preemption bound %d)", name, maxExec, bound))
		}
		c.Extra("schedules_executed", int64(execs))
		c.ExtraMax("max_distinct_outcomes_per_scenario", int64(len(outcomes)))
		c.ExtraMax("max_preemption_bound", int64(bound))
		if len(wvars) == 0 {
			// no written variable: all access events are reads and commute; the executed call orders
			// represent every interleaving of the access events
			c.Extra("interleavings_represented_log2_x1000", int64(1000*log2Multinomial(perThreadAccesses)))
		}
		if firstBad != nil && firstBad.Results != nil {
			var diffs []string
			for ti := range want {
				for ci := range want[ti] {
					if firstBad.Results[ti][ci] != want[ti][ci] {
						diffs = append(diffs, fmt.Sprintf("thread %d call %d (%s): %s, alone %s", ti, ci, c15ops[sc.threads[ti][ci]].name, firstBad.Results[ti][ci], want[ti][ci]))
					}
				}
			}
			var trace []string
			for i, p := range firstBad.Points {
				if p.Chosen != 0 || i == 0 {
					trace = append(trace, fmt.Sprintf("#%d %s var=%s: thread %d -> thread %d", i, rt.SiteName(p.Site), p.Var, p.Thread, p.Enabled[p.Chosen]))
				}
			}
			key := "C15 schedule result-differs"
			if len(diffs) == 0 {
				key = fmt.Sprintf("C15 schedule state var=%s", firstBad.Diffs[0])
			}
			c.Violation(key, fmt.Sprintf("scenario %s: under schedule %v %v; state changes %v", name, firstBadChoices, diffs, firstBad.Diffs),
				map[string]interface{}{"scenario": name, "schedule": fmt.Sprint(firstBadChoices), "switches": trace, "differences": diffs, "state_changes": firstBad.Diffs})
		}
		if c.WantSample() {
			c.Sample(map[string]interface{}{"scenario": name, "access_events_per_thread": perThreadAccesses, "written_variables": wvars, "schedules_executed": execs, "distinct_outcomes": len(outcomes), "points_in_canonical_schedule": len(disc.Points)})
		}
	}
}

func sum(a []int) int {
	t := 0
	for _, x := range a {
		t += x
	}
	return t
}

// ---- free-running race pass -----------------------------------------------------------------------------------

func jobC15race(c *rt.Ctx) {
	c.Require("race-pass")
	reps := 12
	if c.Thorough() {
		reps = 200
	}
	for _, sc := range c15scenarios(c.Thorough()) {
		if !c.Take() {
			continue
		}
		name := scenName(sc)
		c.Class("race-pass")
		c.Distinct(name, true)
		_, stderr, err := rt.RunChild("c15", c15req{Mode: "race", Threads: sc.threads, Reps: reps}, []string{"GORACE=halt_on_error=1 exitcode=66"})
		c.Step(reps)
		if strings.Contains(stderr, "DATA RACE") {
			v := "unknown"
			// extract the first "Previous write at ... by goroutine" / location lines
			lines := strings.Split(stderr, "\n")
			var keep []string
			for _, l := range lines {
				if strings.Contains(l, "oasisprotocol/ed25519") && !strings.Contains(l, "zz_verif") && len(keep) < 6 {
					keep = append(keep, strings.TrimSpace(l))
				}
			}
			if len(keep) > 0 {
				v = keep[0]
				if i := strings.Index(v, "("); i > 0 {
					v = v[:i]
				}
			}
			c.Violation("C15 race-detector DATA RACE", fmt.Sprintf("scenario %s: the Go race detector reports a data race in free-running goroutines (first library frame: %s)", name, v), map[string]interface{}{"scenario": name, "frames": keep, "report": tail(stderr)})
		} else if err != nil {
			c.Violation("C15 race-pass child-crash", fmt.Sprintf("scenario %s: free-running execution failed: %v", name, err), map[string]interface{}{"scenario": name, "stderr": tail(stderr)})
		}
	}
	_ = os.Getenv
}

// parkedEntries: 8 honest entries under the given context, signed by the toolchain's implementation.
func parkedEntries(f *c15fix, salt int, ctx string) ([]ed25519.PublicKey, [][]byte, [][]byte) {
	var pubs []ed25519.PublicKey
	var msgs, sigs [][]byte
	for j := 0; j < 8; j++ {
		m := []byte{byte(salt), byte(j), 0x15}
		sg, err := f.std.Sign(nil, m, &stded.Options{Context: ctx})
		if err != nil {
			panic(err)
		}
		pubs, msgs, sigs = append(pubs, f.pub), append(msgs, m), append(sigs, sg)
	}
	return pubs, msgs, sigs
}

type parkReader struct {
	entered chan int
	release chan struct{}
	r       io.Reader
	parked  bool
}

func (p *parkReader) Read(b []byte) (int, error) {
	if !p.parked {
		p.parked = true
		p.entered <- 0
		<-p.release
	}
	return p.r.Read(b)
}
