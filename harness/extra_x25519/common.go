package x25519

import (
	"testing"

	rt "github.com/oasisprotocol/ed25519/internal/zzverifrt"
)

// TestVerif is the worker entry point.
func TestVerif(t *testing.T) {
	ran, err := rt.Main()
	if err != nil {
		t.Fatal(err)
	}
	if !ran {
		t.Skip("no VERIF_JOB")
	}
}
