package x25519

// C20: secret-independence of control flow, indices and variable-time primitives (E4, 2-safety by
// trace comparison on the instrumented build) plus a straight-line scan of the assembly selector.

import (
	"bytes"
	"crypto"
	stded "crypto/ed25519"
	"crypto/sha512"
	"fmt"
	"io/ioutil"
	"math/big"
	"os"
	"path/filepath"
	"regexp"
	"strings"

	"github.com/oasisprotocol/ed25519"
	"github.com/oasisprotocol/ed25519/internal/ge25519"
	"github.com/oasisprotocol/ed25519/internal/modm"
	ref "github.com/oasisprotocol/ed25519/internal/zzverifref"
	rt "github.com/oasisprotocol/ed25519/internal/zzverifrt"
)

func init() { rt.Register("C20", jobC20) }

type c20scenario struct {
	name    string
	secrets func(thorough bool) [][]byte
	prep    func(secret []byte) interface{} // outside the trace
	run     func(secret []byte, prepared interface{})
}

func seedSecrets(thorough bool) [][]byte {
	n := 1024
	if thorough {
		n = 8192
	}
	var out [][]byte
	for i := 0; i < n; i++ {
		s := make([]byte, 32)
		s[0], s[1] = byte(i), byte(i>>8)
		if i == n-1 {
			for j := range s {
				s[j] = 0xff
			}
		}
		out = append(out, s)
	}
	for i := 0; i < 32; i++ {
		h := sha512.Sum512([]byte{0x20, byte(i)})
		out = append(out, h[:32])
	}
	return out
}

func stdKey(seed []byte) ed25519.PrivateKey {
	return ed25519.PrivateKey(append([]byte{}, stded.NewKeyFromSeed(seed)...))
}

var c20fixedOther = stdKey(bytes.Repeat([]byte{0x33}, 32))

func equalSecrets(thorough bool) [][]byte {
	// receivers that agree with the fixed argument in their first j bytes, j in {0,1,2,31,32,33,62,63,64}
	var out [][]byte
	for _, j := range []int{0, 1, 2, 16, 31, 32, 33, 62, 63, 64} {
		k := append([]byte{}, c20fixedOther...)
		for i := j; i < 64; i++ {
			k[i] ^= 0x5a
		}
		out = append(out, k)
	}
	for i := 0; i < 16; i++ {
		s := make([]byte, 32)
		s[0] = byte(i)
		out = append(out, stdKey(s))
	}
	return out
}

var c20msg = []byte("fixed public message for C20")

var c20fixedPoint = []byte{0x42, 0x9a, 0x13, 0x07, 0x5e, 0xf1, 0x20, 0x88, 0x61, 0x0c, 0xd3, 0x3b, 0x90, 0x7f, 0x55, 0x21, 0xe8, 0x04, 0xbb, 0x6d, 0x19, 0xc2, 0x73, 0xa6, 0x0e, 0x58, 0x97, 0x3c, 0xf4, 0x2d, 0x81, 0x36}

var c20scenarios = []c20scenario{
	{"NewKeyFromSeed", seedSecrets, nil, func(s []byte, _ interface{}) { ed25519.NewKeyFromSeed(s) }},
	{"GenerateKey", seedSecrets, nil, func(s []byte, _ interface{}) { ed25519.GenerateKey(bytes.NewReader(s)) }},
	{"Sign-pure", seedSecrets, func(s []byte) interface{} { return stdKey(s) }, func(s []byte, k interface{}) { ed25519.Sign(k.(ed25519.PrivateKey), c20msg) }},
	{"Sign-ctx", seedSecrets, func(s []byte) interface{} { return stdKey(s) }, func(s []byte, k interface{}) {
		k.(ed25519.PrivateKey).Sign(nil, c20msg, &ed25519.Options{Context: "c20"})
	}},
	{"Sign-ph", seedSecrets, func(s []byte) interface{} { return stdKey(s) }, func(s []byte, k interface{}) {
		d := sha512.Sum512(c20msg)
		k.(ed25519.PrivateKey).Sign(nil, d[:], &ed25519.Options{Hash: crypto.SHA512, Context: "c20"})
	}},
	{"ScalarBaseMult", func(t bool) [][]byte { return nibScalars(t) }, nil, func(s []byte, _ interface{}) {
		var dst, in [32]byte
		copy(in[:], s)
		ScalarBaseMult(&dst, &in)
	}},
	{"X25519-Basepoint", func(t bool) [][]byte { return nibScalars(t) }, nil, func(s []byte, _ interface{}) { X25519(s, Basepoint) }},
	{"EdPrivateKeyToX25519", seedSecrets, func(s []byte) interface{} { return stdKey(s) }, func(s []byte, k interface{}) { EdPrivateKeyToX25519(k.(ed25519.PrivateKey)) }},
	{"PrivateKey.Equal(receiver secret)", equalSecrets, nil, func(s []byte, _ interface{}) { ed25519.PrivateKey(s).Equal(c20fixedOther) }},
	{"PrivateKey.Equal(argument secret)", equalSecrets, nil, func(s []byte, _ interface{}) { c20fixedOther.Equal(ed25519.PrivateKey(s)) }},
	// advisory (name prefix "advisory:"): the generic X25519 path is not among the operations the
	// property lists (until fix F5 it ran inside golang.org/x/crypto); it is traced because the ladder
	// now lives in this library, and a divergence is recorded in the evidence, not raised
	{"advisory: X25519 generic ladder", func(t bool) [][]byte { return nibScalars(t) }, nil, func(s []byte, _ interface{}) { X25519(s, c20fixedPoint) }},
	// layer level: the scalar operations that sign() and NewKeyFromSeed apply to secret values, on a
	// BOUNDARY alphabet of those values (through the API they are hash outputs: a value-dependent
	// branch that needs a 2^-200 event would never show there)
	{"layer: modm.Expand(64-byte secret)", func(bool) [][]byte { return boundaryBytes(64) }, nil, func(s []byte, _ interface{}) {
		var x modm.Bignum256
		modm.Expand(&x, s)
	}},
	{"layer: modm.Expand(32-byte secret)", func(bool) [][]byte { return boundaryBytes(32) }, nil, func(s []byte, _ interface{}) {
		var x modm.Bignum256
		modm.Expand(&x, s)
	}},
	{"layer: S = r + h*a (Mul, Add, Contract)", func(bool) [][]byte { return boundaryBytes(32) }, nil, func(s []byte, _ interface{}) {
		var r, a, S modm.Bignum256
		var out [32]byte
		modm.Expand(&r, s)
		modm.Expand(&a, s[:16])
		modm.Mul(&S, &c20h, &a)
		modm.Add(&S, &S, &r)
		modm.Contract(out[:], &S)
	}},
	{"layer: fixed-base multiplication of a reduced secret", func(bool) [][]byte { return boundaryBytes(32) }, nil, func(s []byte, _ interface{}) {
		var r modm.Bignum256
		var p ge25519.Ge25519
		var out [32]byte
		modm.Expand(&r, s)
		ge25519.ScalarmultBaseNiels(&p, &ge25519.NielsBaseMultiples, &r)
		ge25519.Pack(out[:], &p)
	}},
	{"PrivateKey.Public/Seed", seedSecrets, func(s []byte) interface{} { return stdKey(s) }, func(s []byte, k interface{}) {
		k.(ed25519.PrivateKey).Public()
		k.(ed25519.PrivateKey).Seed()
	}},
}

// public input SHAPES: the message length (and the context length) are public and fixed per scenario; the
// signing scenarios are repeated for the length classes around every block / buffer / integer-width
// boundary (a code path entered only for long messages may treat the secret differently)
func init() {
	small := func(t bool) [][]byte {
		all := seedSecrets(false)
		out := append([][]byte{}, all[:12]...)
		out = append(out, all[1023])
		return append(out, all[1024:]...)
	}
	for _, l := range []int{0, 1, 63, 64, 65, 111, 112, 127, 128, 129, 255, 256, 1023, 1024, 4095, 4096, 4097, 8192, 65535, 65536, 65537, 1 << 20} {
		msg := make([]byte, l)
		for i := range msg {
			msg[i] = byte(i * 7)
		}
		c20scenarios = append(c20scenarios,
			c20scenario{fmt.Sprintf("Sign-pure, %d-byte message", l), small, func(s []byte) interface{} { return stdKey(s) }, func(s []byte, k interface{}) { ed25519.Sign(k.(ed25519.PrivateKey), msg) }},
			c20scenario{fmt.Sprintf("Sign-ctx (255-byte context), %d-byte message", l), small, func(s []byte) interface{} { return stdKey(s) }, func(s []byte, k interface{}) {
				k.(ed25519.PrivateKey).Sign(nil, msg, &ed25519.Options{Context: strings.Repeat("c", 255)})
			}})
	}
	// PrivateKey.Equal on keys of other (equal) lengths than 64: 32 (a bare seed held in a PrivateKey), 40,
	// 63, 65, 96, 128 - secrets agreeing with the other key in their first j bytes, for every multiple of 4
	for _, kl := range []int{32, 40, 63, 65, 96, 128} {
		kl := kl
		other := make([]byte, kl)
		for i := range other {
			other[i] = byte(0x33 + i)
		}
		secrets := func(bool) [][]byte {
			var out [][]byte
			for j := 0; j <= kl; j += 4 {
				k := append([]byte{}, other...)
				for i := j; i < kl; i++ {
					k[i] ^= 0x5a
				}
				out = append(out, k)
			}
			k := append([]byte{}, other...)
			k[kl-1] ^= 1
			return append(out, k)
		}
		c20scenarios = append(c20scenarios,
			c20scenario{fmt.Sprintf("PrivateKey.Equal(receiver secret), %d-byte keys", kl), secrets, nil, func(s []byte, _ interface{}) { ed25519.PrivateKey(s).Equal(ed25519.PrivateKey(other)) }},
			c20scenario{fmt.Sprintf("PrivateKey.Equal(argument secret), %d-byte keys", kl), secrets, nil, func(s []byte, _ interface{}) { ed25519.PrivateKey(other).Equal(ed25519.PrivateKey(s)) }})
	}
	for _, cl := range []int{0, 1, 255} {
		ctx := strings.Repeat("p", cl)
		c20scenarios = append(c20scenarios, c20scenario{fmt.Sprintf("Sign-ph, %d-byte context", cl), small, func(s []byte) interface{} { return stdKey(s) }, func(s []byte, k interface{}) {
			d := sha512.Sum512(c20msg)
			k.(ed25519.PrivateKey).Sign(nil, d[:], &ed25519.Options{Hash: crypto.SHA512, Context: ctx})
		}})
	}
}

func runTraced(sc *c20scenario, secret []byte, keep int) *rt.Trace {
	var p interface{}
	if sc.prep != nil {
		p = sc.prep(secret)
	}
	rt.StartTrace(keep)
	sc.run(secret, p)
	return rt.StopTrace()
}

func jobC20(c *rt.Ctx) {
	c.Require("scenario")
	for si := range c20scenarios {
		if !c.Take() {
			continue
		}
		sc := &c20scenarios[si]
		secrets := sc.secrets(c.Thorough())
		c.Class("scenario")
		var refTrace *rt.Trace
		refSecret := -1
		distinctTraces := map[uint64]int{}
		for i, s := range secrets {
			t := runTraced(sc, s, 0)
			c.Step(1)
			c.DistinctB(true, []byte(sc.name), s)
			if _, seen := distinctTraces[t.Hash]; !seen {
				distinctTraces[t.Hash] = i
			}
			if refTrace == nil {
				refTrace, refSecret = t, i
				continue
			}
			if t.Hash != refTrace.Hash || t.N != refTrace.N {
				// re-run both with full logs and locate the first diverging event
				a := runTraced(sc, secrets[refSecret], 1<<22)
				b := runTraced(sc, s, 1<<22)
				where, ea, eb := "trace lengths differ", "", ""
				for k := 0; k < len(a.Log) && k < len(b.Log); k++ {
					if a.Log[k] != b.Log[k] {
						var kind byte
						var site int
						var val int64
						fmt.Sscanf(a.Log[k], "%c %d %d", &kind, &site, &val)
						where = rt.SiteName(site)
						ea, eb = a.Log[k], b.Log[k]
						var kb byte
						var sb int
						fmt.Sscanf(b.Log[k], "%c %d %d", &kb, &sb, &val)
						if sb != site {
							where += " vs " + rt.SiteName(sb)
						}
						break
					}
				}
				short := where
				if j := strings.Index(short, " "); j > 0 {
					short = short[:j]
				}
				if strings.HasPrefix(sc.name, "advisory:") {
					c.Extra("advisory_divergences", 1)
					c.Sample(map[string]interface{}{"advisory_scenario": sc.name, "diverges_at": where})
					break
				}
				c.Violation(fmt.Sprintf("C20 %s diverges at %s", sc.name, short),
					fmt.Sprintf("scenario %s: executions that differ only in the secret follow different traces; first divergence at %s (events %q vs %q; %d vs %d events)", sc.name, where, ea, eb, a.N, b.N),
					map[string]interface{}{"scenario": sc.name, "secret_a": fmt.Sprintf("%x", secrets[refSecret]), "secret_b": fmt.Sprintf("%x", s), "site": where, "event_a": ea, "event_b": eb, "events_a": a.N, "events_b": b.N})
				break
			}
		}
		c.Extra("secrets_compared", int64(len(secrets)))
		if refTrace != nil {
			c.ExtraMax("max_events_per_trace", refTrace.N)
			if refTrace.N == 0 && strings.HasPrefix(sc.name, "Sign") {
				c.Fail("scenario %s produced an empty trace: the build is not instrumented", sc.name)
				return
			}
		}
		c.ExtraMax("max_distinct_traces_per_scenario", int64(len(distinctTraces)))
		if c.WantSample() {
			c.Sample(map[string]interface{}{"scenario": sc.name, "secrets": len(secrets), "events_per_trace": refTrace.N, "distinct_traces": len(distinctTraces), "first_secret": fmt.Sprintf("%x", secrets[0])})
		}
	}
	// the assembly selector cannot be instrumented: straight-line scan of the .s file
	if c.Take() {
		c.Class("asm-scan")
		c.Distinct("asm-scan", true)
		scanAsm(c)
	}
}

var (
	reMemOK   = regexp.MustCompile(`^(\d+\((R14|R15)\)|\((R14|R15)\)|[A-Za-z_][A-Za-z0-9_]*\+\d+\(FP\))$`)
	asmAllow  = map[string]bool{"MOVQ": true, "MOVD": true, "MOVOU": true, "MOVOA": true, "PSHUFD": true, "PXOR": true, "PAND": true, "PANDN": true, "POR": true, "PCMPEQL": true, "ANDQ": true, "ORQ": true, "XORQ": true, "SHRQ": true, "SHLQ": true, "SUBQ": true, "ADDQ": true, "NEGQ": true, "NOTQ": true, "CMPQ": true, "CMOVQEQ": true, "CMOVQNE": true, "RET": true, "TEXT": true, "MOVL": true, "ANDL": true}
	asmBranch = regexp.MustCompile(`^(J[A-Z]*|CALL|LOOP[A-Z]*|REP[A-Z]*|SYSCALL|INT)$`)
)

func scanAsm(c *rt.Ctx) {
	repo := os.Getenv("VERIF_REPO")
	if repo == "" {
		repo = "/repo"
	}
	files, _ := filepath.Glob(filepath.Join(repo, "internal", "ge25519", "*.s"))
	n := 0
	for _, f := range files {
		b, err := ioutil.ReadFile(f)
		if err != nil {
			c.Fail("cannot read %s: %v", f, err)
			return
		}
		baseWrites := map[string]int{}
		for ln, line := range strings.Split(string(b), "\n") {
			if i := strings.Index(line, "//"); i >= 0 {
				line = line[:i]
			}
			line = strings.TrimSpace(line)
			if line == "" || strings.HasPrefix(line, "#") {
				continue
			}
			fields := strings.Fields(line)
			op := fields[0]
			n++
			c.Step(1)
			bad := ""
			switch {
			case asmBranch.MatchString(op):
				bad = "branch / call instruction " + op
			case !asmAllow[op]:
				bad = "instruction outside the constant-time allow-list: " + op
			}
			if op != "TEXT" {
				ops := strings.Split(strings.Join(fields[1:], ""), ",")
				for i, o := range ops {
					if strings.Contains(o, "(") {
						if !reMemOK.MatchString(o) {
							bad = "memory operand with a non-constant address: " + o
						}
					}
					if i == len(ops)-1 && (o == "R14" || o == "R15") {
						baseWrites[o]++
						if baseWrites[o] > 1 || !strings.HasPrefix(op, "MOVQ") || !strings.Contains(ops[0], "(FP)") {
							bad = "table / output base register " + o + " is modified"
						}
					}
				}
			}
			if bad != "" {
				c.Violation("C20 asm "+strings.Fields(bad)[0]+" "+op, fmt.Sprintf("%s:%d: %s (%q)", strings.TrimPrefix(f, repo+"/"), ln+1, bad, line), map[string]interface{}{"file": f, "line": ln + 1, "text": line})
			}
		}
	}
	c.Extra("asm_instructions_scanned", int64(n))
}

// c20h: a fixed public scalar (the hash h of the signing equation is public).
var c20h = func() modm.Bignum256 {
	var h modm.Bignum256
	b := sha512.Sum512([]byte("c20 public h"))
	modm.Expand(&h, b[:])
	return h
}()

// boundaryBytes: little-endian n-byte strings at and around every boundary of the scalar code: 0,
// small values, 2^k and 2^k - 1 for every limb boundary of both layouts and for 248 / 252 / 253 / 255,
// multiples of L and their neighbours, all-ones, and hash-derived values.
func boundaryBytes(n int) [][]byte {
	var out [][]byte
	add := func(v *big.Int) {
		v = new(big.Int).Mod(v, new(big.Int).Lsh(big.NewInt(1), uint(8*n)))
		out = append(out, ref.ToLE(v, n))
	}
	for _, k := range []int64{0, 1, 2, 7, 8, 255, 256} {
		add(big.NewInt(k))
	}
	for _, bit := range []uint{30, 56, 60, 90, 112, 120, 150, 168, 180, 210, 224, 240, 248, 251, 252, 253, 254, 255, 256, 264, 300, 504, 511} {
		if int(bit) > 8*n {
			continue
		}
		p := new(big.Int).Lsh(big.NewInt(1), bit)
		add(p)
		add(new(big.Int).Sub(p, big.NewInt(1)))
		add(new(big.Int).Add(p, big.NewInt(1)))
	}
	for _, m := range []int64{1, 2, 3, 8, 15, 16} {
		ml := new(big.Int).Mul(ref.L, big.NewInt(m))
		add(ml)
		add(new(big.Int).Sub(ml, big.NewInt(1)))
		add(new(big.Int).Add(ml, big.NewInt(1)))
	}
	add(new(big.Int).Sub(new(big.Int).Lsh(big.NewInt(1), uint(8*n)), big.NewInt(1)))
	for i := 0; i < 64; i++ {
		h := sha512.Sum512([]byte{0xC0, byte(i), byte(n)})
		out = append(out, append([]byte{}, h[:n]...))
	}
	return out
}
