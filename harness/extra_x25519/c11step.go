package x25519

import (
	"math/big"
	"reflect"

	"github.com/oasisprotocol/ed25519/internal/curve25519"
	ref "github.com/oasisprotocol/ed25519/internal/zzverifref"
)

// First-step intermediates. The first iteration of the Montgomery ladder always works on (u : 1)
// (bit 254 of a clamped scalar is set), so E = AA - BB = (u+1)^2 - (u-1)^2 is the one intermediate whose
// LIMBS are an affine function of the input when u occupies a single limb. E is what the ladder
// multiplies by the curve constant a24 = 121665. firstStepPoints constructs points u = y * 2^off (off =
// every limb offset of the layout in use) such that one limb of E - computed here with the library's
// own field operations, exactly as the ladder does - sits at a wrap point of that constant:
// floor(m * 2^w / k) or one below, w in {64, 32}, k in {121665, 121666}.
func limbsOf(x *curve25519.Bignum25519) []uint64 {
	v := reflect.ValueOf(x).Elem()
	out := make([]uint64, v.Len())
	for i := range out {
		out[i] = v.Index(i).Uint()
	}
	return out
}

func firstStepE(u *big.Int) []uint64 {
	var x2, z2, a, b, aa, bb, e curve25519.Bignum25519
	curve25519.Expand(&x2, ref.ToLE(u, 32))
	curve25519.Expand(&z2, ref.ToLE(big.NewInt(1), 32))
	curve25519.Sub(&b, &x2, &z2)
	curve25519.Add(&a, &x2, &z2)
	curve25519.Square(&bb, &b)
	curve25519.Square(&aa, &a)
	curve25519.Sub(&e, &aa, &bb)
	return limbsOf(&e)
}

func firstStepPoints(thorough bool) (pts [][]byte, targetsTried int) {
	var probe curve25519.Bignum25519
	n := len(limbsOf(&probe))
	offs := make([]uint, n)
	bits := make([]uint, n)
	off := uint(0)
	for i := 0; i < n; i++ {
		offs[i] = off
		if n == 5 {
			bits[i] = 51
		} else {
			bits[i] = 26 - uint(i%2)
		}
		off += bits[i]
	}
	seen := map[string]bool{}
	for li := 0; li < n; li++ {
		bound := uint64(4) << bits[li]
		var targets []uint64
		for _, k := range []uint64{121665, 121666} {
			for _, w := range []uint{64, 32} {
				top := new(big.Int).Lsh(big.NewInt(1), w)
				mm := new(big.Int).Mul(new(big.Int).SetUint64(bound), new(big.Int).SetUint64(k))
				mm.Rsh(mm, w)
				// (a word size below the limb size gives astronomically many wrap points: skipped; the
				// rest is thinned to at most 128 (thorough 1024) multiples per constant, word size and limb)
				if !mm.IsUint64() || mm.Uint64() > 1<<20 {
					continue
				}
				step := uint64(1)
				lim := uint64(128)
				if thorough {
					lim = 1024
				}
				if mm.Uint64() > lim {
					step = mm.Uint64() / lim
				}
				for m := uint64(1); m <= mm.Uint64(); m += step {
					v := new(big.Int).Mul(new(big.Int).SetUint64(m), top)
					v.Div(v, new(big.Int).SetUint64(k))
					targets = append(targets, v.Uint64(), v.Uint64()-1)
				}
			}
		}
		targetsTried += len(targets)
		y0 := big.NewInt(12345)
		u0 := new(big.Int).Lsh(y0, offs[li])
		u1 := new(big.Int).Lsh(new(big.Int).Add(y0, big.NewInt(1)), offs[li])
		f0, f1 := firstStepE(u0), firstStepE(u1)
		for j := 0; j < n; j++ {
			s := int64(f1[j]) - int64(f0[j])
			if s <= 0 {
				continue
			}
			for _, t := range targets {
				d := int64(t) - int64(f0[j])
				if d%s != 0 {
					continue
				}
				y := new(big.Int).Add(y0, big.NewInt(d/s))
				if y.Sign() <= 0 || y.BitLen() > int(bits[li])-2 {
					continue
				}
				u := new(big.Int).Lsh(y, offs[li])
				if u.Cmp(ref.P) >= 0 || firstStepE(u)[j] != t {
					continue
				}
				b := ref.ToLE(u, 32)
				if !seen[string(b)] {
					seen[string(b)] = true
					pts = append(pts, b)
				}
			}
		}
	}
	return pts, targetsTried
}
