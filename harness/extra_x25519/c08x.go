package x25519

import (
	"crypto/sha256"
	"crypto/sha512"
	"fmt"
	"math/big"

	"github.com/oasisprotocol/ed25519"
	ref "github.com/oasisprotocol/ed25519/internal/zzverifref"
	rt "github.com/oasisprotocol/ed25519/internal/zzverifrt"
)

func init() { rt.Register("C08x", jobC08x) }

func jobC08x(c *rt.Ctx) {
	c.Require("x25519-base", "x25519-generic", "convert")
	emit := func(class string, desc func() map[string]interface{}, parts ...[]byte) {
		h := sha256.New()
		for _, p := range parts {
			h.Write([]byte{byte(len(p))})
			h.Write(p)
		}
		c.Step(1)
		c.Class(class)
		c.Distinct(fmt.Sprintf("%s %d", class, c.Index()), true)
		c.Transcript(h.Sum(nil), desc)
		if c.WantSample() {
			s := desc()
			s["class"] = class
			c.Sample(s)
		}
	}
	for _, s := range append(nibScalars(c.Thorough()), carryRunScalars(c.Thorough())...) {
		if !c.Take() {
			continue
		}
		o1, e1 := X25519(s, Basepoint)
		var a1, in [32]byte
		copy(in[:], s)
		ScalarBaseMult(&a1, &in)
		emit("x25519-base", func() map[string]interface{} {
			return map[string]interface{}{"scalar": ref.Hex(s), "out": ref.Hex(o1)}
		}, o1, a1[:], []byte(fmt.Sprint(e1 != nil)))
	}
	// the base-point product at every stack depth of the calling goroutine (8-byte steps up to 72 KB):
	// the set of results observed is part of the transcript (one element in every configuration)
	c.Require("x25519-base-stack")
	for si, b0 := range []byte{0x10, 0xf0, 0x80} {
		if !c.Take() {
			continue
		}
		var in [32]byte
		for i := range in {
			in[i] = byte(0x37*i + 0x21)
		}
		in[0] = b0
		seen := map[[32]byte]int{}
		rt.StackSweep(72<<10, func() {
			var out [32]byte
			ScalarBaseMult(&out, &in)
			seen[out]++
		}, nil)
		var parts [][]byte
		first := ""
		for k := range seen {
			kk := k
			parts = append(parts, kk[:])
			if first == "" {
				first = ref.Hex(kk[:])
			}
		}
		if len(parts) > 1 {
			parts = [][]byte{[]byte(fmt.Sprintf("%d distinct results over the stack depths", len(parts)))}
		}
		sii := si
		emit("x25519-base-stack", func() map[string]interface{} {
			return map[string]interface{}{"scalar_byte0": b0, "distinct_results": len(seen), "out": first, "case": sii}
		}, parts...)
	}
	for i := 0; i < 64; i++ {
		if !c.Take() {
			continue
		}
		h := sha512.Sum512([]byte{0x77, byte(i)})
		pt := h[32:]
		if i < 8 {
			pt = make([]byte, 32)
			pt[0] = byte(i)
		}
		o, e := X25519(h[:32], pt)
		// the array API on the same point as given, with bit 255 set and with bit 255 clear
		var d1, d2, d3, in, b1 [32]byte
		copy(in[:], h[:32])
		copy(b1[:], pt)
		ScalarMult(&d1, &in, &b1)
		b1[31] |= 0x80
		ScalarMult(&d2, &in, &b1)
		b1[31] &= 0x7f
		ScalarMult(&d3, &in, &b1)
		ptHi := append([]byte{}, pt...)
		ptHi[31] |= 0x80
		o2, e2 := X25519(h[:32], ptHi)
		emit("x25519-generic", func() map[string]interface{} {
			return map[string]interface{}{"scalar": ref.Hex(h[:32]), "point": ref.Hex(pt), "out": ref.Hex(o), "array_api": ref.Hex(d1[:]), "array_api_bit255_set": ref.Hex(d2[:])}
		}, o, []byte(fmt.Sprint(e != nil)), d1[:], d2[:], d3[:], o2, []byte(fmt.Sprint(e2 != nil)))
	}
	// constructed results (as C11): (scalar, point) pairs whose RFC 7748 result is a chosen u - the
	// smallest values (the range in which a backend that stops at a partially reduced value differs
	// from one that reduces fully), the largest ones, and one power of 256 per byte position
	c.Require("x25519-constructed")
	var targets []*big.Int
	for k := int64(1); k < 64; k++ {
		targets = append(targets, big.NewInt(k), new(big.Int).Sub(ref.P, big.NewInt(k)))
	}
	for i := 1; i < 32; i++ {
		targets = append(targets, new(big.Int).Lsh(big.NewInt(1), uint(8*i)))
	}
	twistL := ref.TwistSubgroupOrder()
	for ti, u := range targets {
		if !c.Take() {
			continue
		}
		var order *big.Int
		for _, ord := range []*big.Int{ref.L, twistL} {
			if _, z := ref.LadderXZ(ord, u); z.Sign() == 0 {
				order = ord
				break
			}
		}
		if order == nil {
			emit("x25519-constructed-skip", func() map[string]interface{} { return map[string]interface{}{"u": u.String()} }, []byte{byte(ti)})
			continue
		}
		h := sha512.Sum512([]byte{0xC8, byte(ti)})
		sc := h[:32]
		cl := append([]byte{}, sc...)
		cl[0] &= 248
		cl[31] &= 127
		cl[31] |= 64
		inv := new(big.Int).ModInverse(new(big.Int).Mod(ref.LE(cl), order), order)
		P := ref.ToLE(ref.Ladder(inv, u), 32)
		o, e := X25519(sc, P)
		var d, in, bp [32]byte
		copy(in[:], sc)
		copy(bp[:], P)
		ScalarMult(&d, &in, &bp)
		emit("x25519-constructed", func() map[string]interface{} {
			return map[string]interface{}{"scalar": ref.Hex(sc), "point": ref.Hex(P), "target_u": u.String(), "out": ref.Hex(o), "scalarmult": ref.Hex(d[:])}
		}, o, d[:], []byte(fmt.Sprint(e != nil)))
	}
	lim := 1 << 11
	if c.Thorough() {
		lim = 1 << 14
	}
	for y := 0; y < lim; y++ {
		if !c.Take() {
			continue
		}
		b := make([]byte, 32)
		b[0], b[1] = byte(y), byte(y>>8)
		b[31] = byte(y&1) << 7
		o, ok := EdPublicKeyToX25519(ed25519.PublicKey(b))
		seed := make([]byte, 32)
		seed[0], seed[1] = byte(y), byte(y>>8)
		k := ed25519.NewKeyFromSeed(seed)
		xp := EdPrivateKeyToX25519(k)
		xq, _ := EdPublicKeyToX25519(k.Public().(ed25519.PublicKey))
		emit("convert", func() map[string]interface{} {
			return map[string]interface{}{"y": y, "u": ref.Hex(o), "ok": ok}
		}, o, []byte(fmt.Sprint(ok)), xp, xq)
	}
}
