package x25519

import (
	"bytes"
	"fmt"

	"github.com/oasisprotocol/ed25519"
	rt "github.com/oasisprotocol/ed25519/internal/zzverifrt"
)

func init() { rt.Register("C13x", jobC13x) }

func jobC13x(c *rt.Ctx) {
	c.Require("x25519/error", "x25519/value", "x25519/alias")
	// re-slices of the exported base-point slice: the fast path is selected by pointer identity, the
	// length contract must hold all the same
	scal := bytes.Repeat([]byte{0x11}, 32)
	for lo := 0; lo <= 1; lo++ {
		for hi := lo; hi <= 32; hi++ {
			if !c.Take() {
				continue
			}
			pt := Basepoint[lo:hi]
			var out []byte
			var err error
			var pv interface{}
			func() {
				defer func() { pv = recover() }()
				out, err = X25519(scal, pt)
			}()
			c.Step(1)
			c.Class("x25519/alias")
			c.Distinct(fmt.Sprintf("alias %d %d", lo, hi), true)
			wantErr := hi-lo != 32
			bad := pv != nil || (err != nil) != wantErr || (wantErr && out != nil)
			if !wantErr && !bad {
				want, _ := X25519(scal, append([]byte{}, Basepoint...))
				bad = !bytes.Equal(out, want)
			}
			if bad {
				c.Violation(fmt.Sprintf("C13 x25519 basepoint-reslice wantErr=%v", wantErr), fmt.Sprintf("X25519(scalar, Basepoint[%d:%d]): out=%x err=%v panic=%v", lo, hi, out, err, pv), map[string]interface{}{"lo": lo, "hi": hi})
			}
		}
	}
	// key conversion leaves its argument intact, decodable or not (y scan 0..511 x sign)
	c.Require("convert-intact")
	for y := 0; y < 512; y++ {
		if !c.Take() {
			continue
		}
		for sgn := 0; sgn < 2; sgn++ {
			k := make([]byte, 32)
			k[0], k[1], k[31] = byte(y), byte(y>>8), byte(sgn)<<7
			cp := append([]byte{}, k...)
			EdPublicKeyToX25519(ed25519.PublicKey(k))
			c.Step(1)
			if !bytes.Equal(k, cp) {
				c.Violation("C13 EdPublicKeyToX25519 modifies its argument", fmt.Sprintf("EdPublicKeyToX25519 changed the caller's key: %x -> %x", cp, k), map[string]interface{}{"before": fmt.Sprintf("%x", cp), "after": fmt.Sprintf("%x", k)})
			}
		}
		c.Class("convert-intact")
		c.Distinct(fmt.Sprintf("ci %d", y), true)
	}
	for sl := -1; sl <= 40; sl++ {
		for pl := -1; pl <= 40; pl++ {
			for base := 0; base < 2; base++ {
				if !c.Take() {
					continue
				}
				var sc, pt []byte
				var scB, ptB []byte
				if sl >= 0 {
					scB = bytes.Repeat([]byte{0xA5}, 32+sl+32)
					for i := 0; i < sl; i++ {
						scB[32+i] = byte(i*3 + 1)
					}
					sc = scB[32 : 32+sl]
				}
				if pl >= 0 {
					ptB = bytes.Repeat([]byte{0x5A}, 32+pl+32)
					for i := 0; i < pl; i++ {
						ptB[32+i] = byte(i*5 + 2)
					}
					pt = ptB[32 : 32+pl]
				}
				if base == 1 {
					if pl != 32 {
						continue
					}
					pt = Basepoint
				}
				scS, ptS := append([]byte{}, scB...), append([]byte{}, ptB...)
				var out []byte
				var err error
				var pv interface{}
				func() {
					defer func() { pv = recover() }()
					out, err = X25519(sc, pt)
				}()
				c.Step(1)
				c.Distinct(fmt.Sprintf("x %d %d %d", sl, pl, base), sl == 32 || pl == 32)
				wantErr := sl != 32 || pl != 32
				if wantErr {
					c.Class("x25519/error")
				} else {
					c.Class("x25519/value")
				}
				if pv != nil || (err != nil) != wantErr || (wantErr && out != nil) || (!wantErr && len(out) != 32) {
					c.Violation(fmt.Sprintf("C13 x25519 lengths wantErr=%v", wantErr), fmt.Sprintf("X25519 with scalar length %d, point length %d: out=%x err=%v panic=%v", sl, pl, out, err, pv),
						map[string]interface{}{"scalar_len": sl, "point_len": pl, "basepoint": base})
				}
				if !bytes.Equal(scS, scB) || !bytes.Equal(ptS, ptB) || Basepoint[0] != 9 {
					c.Violation("C13 x25519 modifies input", "X25519 modified a caller-supplied slice", map[string]interface{}{"scalar_len": sl, "point_len": pl})
				}
			}
		}
	}
}
