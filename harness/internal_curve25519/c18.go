package curve25519

// C18: field arithmetic mod 2^255-19 on the limb layout selected by the build configuration.
// The harness is layout-agnostic: number of limbs and limb widths are derived from the array length.

import (
	"bytes"
	"fmt"
	"math/big"
	"reflect"
	"testing"

	ref "github.com/oasisprotocol/ed25519/internal/zzverifref"
	rt "github.com/oasisprotocol/ed25519/internal/zzverifrt"
)

func TestVerif(t *testing.T) {
	ran, err := rt.Main()
	if err != nil {
		t.Fatal(err)
	}
	if !ran {
		t.Skip("no VERIF_JOB")
	}
}

func init() { rt.Register("C18", jobC18) }

const nLimbs = len(Bignum25519{})

var (
	limbOff  [nLimbs]uint
	limbBits [nLimbs]uint
)

func init() {
	if nLimbs == 5 {
		for i := 0; i < nLimbs; i++ {
			limbOff[i], limbBits[i] = uint(51*i), 51
		}
	} else {
		off := uint(0)
		for i := 0; i < nLimbs; i++ {
			limbOff[i] = off
			limbBits[i] = 26 - uint(i%2)
			off += limbBits[i]
		}
	}
}

func limbMask(i int) uint64 { return (uint64(1) << limbBits[i]) - 1 }

func setLimbs(x *Bignum25519, v []uint64) {
	rv := reflect.ValueOf(x).Elem()
	for i := 0; i < nLimbs; i++ {
		rv.Index(i).SetUint(v[i])
	}
}

func getLimbs(x *Bignum25519) []uint64 {
	out := make([]uint64, nLimbs)
	for i := range out {
		out[i] = uint64(x[i])
	}
	return out
}

func valueOf(x *Bignum25519) *big.Int {
	v := new(big.Int)
	for i := nLimbs - 1; i >= 0; i-- {
		t := new(big.Int).SetUint64(uint64(x[i]))
		t.Lsh(t, limbOff[i])
		v.Add(v, t)
	}
	return v.Mod(v, ref.P)
}

// an element with its exact residue and the class it belongs to
type elem struct {
	x     Bignum25519
	v     *big.Int
	class string
}

func mk(limbs []uint64, class string) elem {
	var e elem
	setLimbs(&e.x, limbs)
	e.v = valueOf(&e.x)
	e.class = class
	return e
}

// limb value alphabet for position i
func limbAlphabet(i int, n int) []uint64 {
	m := limbMask(i)
	full := []uint64{0, m, 1, m - 1, 19, m - 18, 2, 18, 20, m - 19}
	return full[:n]
}

// reducedProduct enumerates the full product of an n-value alphabet over all limbs.
func reducedProduct(n int, f func(l []uint64)) {
	reducedProductN(func(int) int { return n }, f)
}

// reducedProductN: per-limb alphabet sizes.
func reducedProductN(size func(limb int) int, f func(l []uint64)) {
	idx := make([]int, nLimbs)
	l := make([]uint64, nLimbs)
	for {
		for i := range l {
			l[i] = limbAlphabet(i, size(i))[idx[i]]
		}
		f(l)
		k := 0
		for k < nLimbs {
			idx[k]++
			if idx[k] < size(k) {
				break
			}
			idx[k] = 0
			k++
		}
		if k == nLimbs {
			return
		}
	}
}

// special representations: limb vectors for 0, 1, p-1, p, p+1, 2^255-1 (all-max), and the
// documented worst case of a multiplication output (limb 1 overflowed)
func specials() []elem {
	var out []elem
	l := make([]uint64, nLimbs)
	out = append(out, mk(l, "R"))
	l[0] = 1
	out = append(out, mk(l, "R"))
	// p = all-max with limb0 = mask - 18
	for i := range l {
		l[i] = limbMask(i)
	}
	out = append(out, mk(l, "R")) // 2^255-1
	l[0] = limbMask(0) - 18
	out = append(out, mk(l, "R")) // p
	l[0] = limbMask(0) - 19
	out = append(out, mk(l, "R")) // p-1
	l[0] = limbMask(0) - 17
	out = append(out, mk(l, "R")) // p+1
	// multiplication worst case (maxBignum of the repository's own constants)
	mb := maxBignum
	out = append(out, elem{x: mb, v: valueOf(&mb), class: "R"})
	return out
}

type binop struct {
	name string
	f    func(out, a, b *Bignum25519)
	op   func(a, b *big.Int) *big.Int
	ca   string // class of a
	cb   string // class of b
	post string // class of the result: "R" means limbs within the reduced bound
}

func fadd(a, b *big.Int) *big.Int { x := new(big.Int).Add(a, b); return x.Mod(x, ref.P) }
func fsub(a, b *big.Int) *big.Int { x := new(big.Int).Sub(a, b); return x.Mod(x, ref.P) }
func fmul(a, b *big.Int) *big.Int { x := new(big.Int).Mul(a, b); return x.Mod(x, ref.P) }

// reducedBound: maximum limb value of a "reduced" output (limb 1 may carry the final fold)
func reducedBoundOK(x *Bignum25519) bool {
	for i := 0; i < nLimbs; i++ {
		b := limbMask(i)
		if i == 1 || i == 0 {
			b += 1 << 14 // the x19 fold lands in limb 0 / carries into limb 1
		}
		if uint64(x[i]) > b {
			return false
		}
	}
	return true
}

func jobC18(c *rt.Ctx) {
	c.Require("Add", "Sub", "Mul/R*R", "Mul/B2*B2", "Square", "Contract/noncanonical", "Expand", "Recip", "PowTwo252m3", "SwapConditional", "Neg", "SquareTimes", "AddAfterBasic", "SubAfterBasic", "AddReduce", "SubReduce")
	nA := 4
	if c.Thorough() {
		nA = 6
	}
	if nLimbs == 10 {
		nA = 2
	}
	// class R base set: full product over limbs
	var R []elem
	if nLimbs == 10 && c.Thorough() {
		// 32-bit thorough: 3 values on the two lowest and two highest limbs, 2 elsewhere (5,184 elements)
		reducedProductN(func(i int) int {
			if i <= 1 || i >= 8 {
				return 3
			}
			return 2
		}, func(l []uint64) { R = append(R, mk(l, "R")) })
	} else {
		reducedProduct(nA, func(l []uint64) { R = append(R, mk(l, "R")) })
	}
	sp := specials()
	R = append(R, sp...)
	var Rextra []elem // 32-bit: deviation-level-2 elements (unary ops and pairing with the subset)
	if nLimbs == 10 {
		// deviation level 2 around 3 base patterns with the 9-value alphabet
		bases := [][]uint64{make([]uint64, nLimbs), make([]uint64, nLimbs), make([]uint64, nLimbs)}
		for i := 0; i < nLimbs; i++ {
			bases[1][i] = limbMask(i)
			bases[2][i] = limbMask(i) / 3
		}
		sizes := make([]int, nLimbs)
		for i := range sizes {
			sizes[i] = 10
		}
		for _, b := range bases {
			rt.EnumDev(sizes, 2, func(level int, v []int) {
				if level == 0 {
					return
				}
				l := append([]uint64{}, b...)
				for i, x := range v {
					if x > 0 {
						l[i] = limbAlphabet(i, 10)[x]
					}
				}
				Rextra = append(Rextra, mk(l, "R"))
			})
		}
	}
	// Contract on representations in which one limb holds an extra bit that only the carry pass
	// moves up (limb k + 2^bits, limb k+1 - 1: the same integer): a test made on the raw limbs
	// before the carries sees a top limb below saturation while the value is in [p, 2^255)
	for bi, b := range sp {
		for k := 0; k+1 < nLimbs; k++ {
			if !c.Take() {
				continue
			}
			l := getLimbs(&b.x)
			if l[k+1] == 0 || bi == len(sp)-1 {
				continue
			}
			l[k] += uint64(1) << limbBits[k]
			l[k+1]--
			e := mk(l, "carry")
			c.Distinct(fmt.Sprintf("contract-carry %d %d", bi, k), true)
			var cb [32]byte
			Contract(cb[:], &e.x)
			c.Step(1)
			if wantB := ref.ToLE(e.v, 32); e.v.Cmp(b.v) != 0 || !bytes.Equal(cb[:], wantB) {
				c.Violation("C18 Contract carry-chain", fmt.Sprintf("Contract of limbs %v is %x, canonical value is %x", l, cb, wantB), map[string]interface{}{"limbs": fmt.Sprint(l), "observed": ref.Hex(cb[:]), "expected": ref.Hex(wantB)})
			}
		}
	}
	c.Extra("class_R_elements", int64(len(R)+len(Rextra)))
	report := func(op string, a, b *elem, out *Bignum25519, want *big.Int, why string) {
		d := map[string]interface{}{"op": op, "a_limbs": fmt.Sprint(getLimbs(&a.x)), "a_class": a.class, "out_limbs": fmt.Sprint(getLimbs(out)), "expected_value": want.String(), "observed_value": valueOf(out).String(), "why": why}
		if b != nil {
			d["b_limbs"], d["b_class"] = fmt.Sprint(getLimbs(&b.x)), b.class
		}
		cb := ""
		if b != nil {
			cb = "*" + b.class
		}
		c.Violation(fmt.Sprintf("C18 %s %s%s %s", op, a.class, cb, why), fmt.Sprintf("%s on classes %s%s: %s", op, a.class, cb, why), d)
	}
	// derive classes B1 (one basic add/sub of R operands), B2 (after-basic forms), N (negation)
	// by running the real operations on extremes; values are tracked exactly.
	pick := func(set []elem, n int) []elem {
		if len(set) <= n {
			return set
		}
		var out []elem
		step := len(set) / n
		for i := 0; i < len(set) && len(out) < n; i += step {
			out = append(out, set[i])
		}
		return append(out, set[len(set)-len(sp):]...)
	}
	nsub := 40
	if c.Thorough() {
		nsub = 120
	}
	Rs := pick(R, nsub)
	var B1a, B1s, B2, N []elem
	for i := range Rs {
		for j := range Rs {
			if (i*7+j)%5 != 0 && !(i >= len(Rs)-len(sp) && j >= len(Rs)-len(sp)) {
				continue
			}
			var e elem
			Add(&e.x, &Rs[i].x, &Rs[j].x)
			e.v, e.class = fadd(Rs[i].v, Rs[j].v), "B1a"
			B1a = append(B1a, e)
			var s elem
			Sub(&s.x, &Rs[i].x, &Rs[j].x)
			s.v, s.class = fsub(Rs[i].v, Rs[j].v), "B1s"
			B1s = append(B1s, s)
		}
		var n elem
		Neg(&n.x, &Rs[i].x)
		n.v, n.class = fsub(big.NewInt(0), Rs[i].v), "N"
		N = append(N, n)
	}
	// B2 as the group-law code produces it: AddAfterBasic(B1a, R), SubAfterBasic(B1a, R),
	// SubAfterBasic(R, B1a), SubAfterBasic(R, B1s)  (the first operand of an after-basic form is
	// never the output of a basic subtraction in ge25519)
	B1as := pick(B1a, nsub)
	B1ss := pick(B1s, nsub)
	for i := range B1as {
		for j := range Rs {
			if (i*3+j)%11 != 0 && !(j >= len(Rs)-len(sp)) {
				continue
			}
			var e elem
			AddAfterBasic(&e.x, &B1as[i].x, &Rs[j].x)
			e.v, e.class = fadd(B1as[i].v, Rs[j].v), "B2"
			B2 = append(B2, e)
			var s elem
			SubAfterBasic(&s.x, &B1as[i].x, &Rs[j].x)
			s.v, s.class = fsub(B1as[i].v, Rs[j].v), "B2"
			B2 = append(B2, s)
			var s2 elem
			SubAfterBasic(&s2.x, &Rs[j].x, &B1as[i].x)
			s2.v, s2.class = fsub(Rs[j].v, B1as[i].v), "B2"
			B2 = append(B2, s2)
			k := i % len(B1ss)
			var s3 elem
			SubAfterBasic(&s3.x, &Rs[j].x, &B1ss[k].x)
			s3.v, s3.class = fsub(Rs[j].v, B1ss[k].v), "B2"
			B2 = append(B2, s3)
		}
	}
	// ... and the rest of the documented domain of the after-basic forms ("a and/or b are the result
	// of a basic op (add, sub)"): a subtraction result first, and both operands one-level results
	for i := range B1ss {
		for j := range Rs {
			if (i*5+j)%13 != 0 && !(j >= len(Rs)-len(sp)) {
				continue
			}
			var e elem
			AddAfterBasic(&e.x, &B1ss[i].x, &Rs[j].x)
			e.v, e.class = fadd(B1ss[i].v, Rs[j].v), "B2"
			B2 = append(B2, e)
			k := (i + j) % len(B1as)
			var e2 elem
			AddAfterBasic(&e2.x, &B1as[k].x, &B1as[(k+1)%len(B1as)].x)
			e2.v, e2.class = fadd(B1as[k].v, B1as[(k+1)%len(B1as)].v), "B2"
			B2 = append(B2, e2)
			var e3 elem
			AddAfterBasic(&e3.x, &B1ss[i].x, &B1ss[(i+1)%len(B1ss)].x)
			e3.v, e3.class = fadd(B1ss[i].v, B1ss[(i+1)%len(B1ss)].v), "B2"
			B2 = append(B2, e3)
			var e4 elem
			SubAfterBasic(&e4.x, &B1ss[i].x, &B1as[k].x)
			e4.v, e4.class = fsub(B1ss[i].v, B1as[k].v), "B2"
			B2 = append(B2, e4)
		}
	}
	B2s := pick(B2, nsub)
	Ns := pick(N, nsub/2)
	c.Extra("class_B1_elements", int64(len(B1a)+len(B1s)))
	c.Extra("class_B2_elements", int64(len(B2)))
	sets := map[string][]elem{"R": append(append([]elem{}, R...), Rextra...), "B1a": B1a, "B1s": B1s, "B2": B2, "N": N}
	subsets := map[string][]elem{"R": Rs, "B1a": B1as, "B1s": B1ss, "B2": B2s, "N": Ns}

	// (1) binary operations on R x R over the full product (the dense alphabet)
	ops := []binop{
		{"Add", Add, fadd, "R", "R", "B1"},
		{"Sub", Sub, fsub, "R", "R", "B1"},
		{"AddReduce", AddReduce, fadd, "R", "R", "R"},
		{"SubReduce", SubReduce, fsub, "R", "R", "R"},
		{"Mul", Mul, fmul, "R", "R", "R"},
	}
	for ai := range R {
		if !c.Take() {
			continue
		}
		a := &R[ai]
		for bi := range R {
			b := &R[bi]
			for _, op := range ops {
				var out Bignum25519
				op.f(&out, &a.x, &b.x)
				want := op.op(a.v, b.v)
				c.Step(1)
				if valueOf(&out).Cmp(want) != 0 {
					report(op.name, a, b, &out, want, "wrong residue")
				} else if op.post == "R" && !reducedBoundOK(&out) {
					report(op.name, a, b, &out, want, "output limbs exceed the reduced bound")
				}
			}
		}
		c.ClassN("Add", len(R))
		c.ClassN("Sub", len(R))
		c.ClassN("AddReduce", len(R))
		c.ClassN("SubReduce", len(R))
		c.ClassN("Mul/R*R", len(R))
		c.DistinctB(a.v.Sign() != 0, []byte("bin"), []byte(fmt.Sprint(getLimbs(&a.x))))
		if c.WantSample() && ai > 3 {
			c.Sample(map[string]interface{}{"op": "binary ops R x R", "a_limbs": fmt.Sprint(getLimbs(&a.x)), "a_value": a.v.String(), "partners": len(R)})
		}
		// in-place forms (callers alias out with an operand)
		for _, op := range ops {
			t := a.x
			op.f(&t, &t, &a.x)
			if valueOf(&t).Cmp(op.op(a.v, a.v)) != 0 {
				report(op.name+"-inplace", a, a, &t, op.op(a.v, a.v), "wrong residue when out aliases both operands")
			}
			other := R[(ai*31+7)%len(R)]
			t = a.x
			op.f(&t, &t, &other.x)
			if valueOf(&t).Cmp(op.op(a.v, other.v)) != 0 {
				report(op.name+"-inplace", a, &other, &t, op.op(a.v, other.v), "wrong residue when out aliases the first operand")
			}
			t = a.x
			op.f(&t, &other.x, &t)
			if valueOf(&t).Cmp(op.op(other.v, a.v)) != 0 {
				report(op.name+"-inplace", &other, a, &t, op.op(other.v, a.v), "wrong residue when out aliases the second operand")
			}
			c.Step(3)
		}
	}
	// (1b) 32-bit: deviation-level-2 elements against the subset, both operand orders
	for ai := range Rextra {
		if !c.Take() {
			continue
		}
		a := &Rextra[ai]
		for bi := range Rs {
			b := &Rs[bi]
			for _, op := range ops {
				var out Bignum25519
				op.f(&out, &a.x, &b.x)
				want := op.op(a.v, b.v)
				var out2 Bignum25519
				op.f(&out2, &b.x, &a.x)
				want2 := op.op(b.v, a.v)
				c.Step(2)
				if valueOf(&out).Cmp(want) != 0 || (op.post == "R" && !reducedBoundOK(&out)) {
					report(op.name, a, b, &out, want, "wrong residue or bound")
				}
				if valueOf(&out2).Cmp(want2) != 0 || (op.post == "R" && !reducedBoundOK(&out2)) {
					report(op.name, b, a, &out2, want2, "wrong residue or bound")
				}
			}
		}
		c.DistinctB(true, []byte("binx"), []byte(fmt.Sprint(getLimbs(&a.x))))
	}
	// (2) class-pair tables as the group-law code uses them
	pairs := []struct {
		name   string
		f      func(out, a, b *Bignum25519)
		op     func(a, b *big.Int) *big.Int
		ca, cb string
		post   string
	}{
		{"AddAfterBasic", AddAfterBasic, fadd, "B1a", "R", ""},
		{"SubAfterBasic", SubAfterBasic, fsub, "B1a", "R", ""},
		{"SubAfterBasic", SubAfterBasic, fsub, "R", "B1a", ""},
		{"SubAfterBasic", SubAfterBasic, fsub, "R", "B1s", ""},
		{"Add", Add, fadd, "N", "R", ""}, {"Sub", Sub, fsub, "N", "R", ""}, {"Sub", Sub, fsub, "R", "N", ""},
		// the reducing forms share the 4p bias of the after-basic forms: exact (and carried) for one
		// level of unreduced add/sub on either side (upstream contract; the quantifier's "one level")
		{"SubReduce", SubReduce, fsub, "R", "B1a", "R"}, {"SubReduce", SubReduce, fsub, "R", "B1s", "R"}, {"SubReduce", SubReduce, fsub, "B1a", "R", "R"},
		{"SubReduce", SubReduce, fsub, "B1s", "R", "R"}, {"SubReduce", SubReduce, fsub, "B1a", "B1s", "R"}, {"SubReduce", SubReduce, fsub, "B1s", "B1a", "R"},
		{"AddReduce", AddReduce, fadd, "R", "B1a", "R"}, {"AddReduce", AddReduce, fadd, "B1s", "R", "R"}, {"AddReduce", AddReduce, fadd, "B1a", "B1s", "R"},
		{"SubAfterBasic", SubAfterBasic, fsub, "B1a", "B1s", ""}, {"SubAfterBasic", SubAfterBasic, fsub, "B1s", "B1a", ""}, {"AddAfterBasic", AddAfterBasic, fadd, "B1a", "B1s", ""},
	}
	mulClasses := []string{"R", "B1a", "B1s", "B2", "N"}
	for _, ca := range mulClasses {
		for _, cb := range mulClasses {
			pairs = append(pairs, struct {
				name   string
				f      func(out, a, b *Bignum25519)
				op     func(a, b *big.Int) *big.Int
				ca, cb string
				post   string
			}{"Mul", Mul, fmul, ca, cb, "R"})
		}
	}
	// the dense R set against the subset of every class (32-bit: includes the deviation-level-2 elements)
	for _, cb := range []string{"R"} {
		_ = cb
	}
	for pi, p := range pairs {
		A, B := subsets[p.ca], subsets[p.cb]
		for ai := range A {
			if !c.Take() {
				continue
			}
			for bi := range B {
				var out Bignum25519
				p.f(&out, &A[ai].x, &B[bi].x)
				want := p.op(A[ai].v, B[bi].v)
				c.Step(1)
				if valueOf(&out).Cmp(want) != 0 {
					report(p.name, &A[ai], &B[bi], &out, want, "wrong residue")
				} else if p.post == "R" && !reducedBoundOK(&out) {
					report(p.name, &A[ai], &B[bi], &out, want, "output limbs exceed the reduced bound")
				}
			}
			cl := p.name
			if p.name == "Mul" {
				cl = "Mul/" + p.ca + "*" + p.cb
			}
			c.ClassN(cl, len(B))
			c.Distinct(fmt.Sprintf("pair %d %d", pi, ai), true)
		}
	}
	// (3) unary operations on every element of every class
	for _, cn := range []string{"R", "B1a", "B1s", "B2", "N"} {
		set := sets[cn]
		for ei := range set {
			if !c.Take() {
				continue
			}
			e := &set[ei]
			c.Distinct(fmt.Sprintf("un %s %d", cn, ei), true)
			var out Bignum25519
			if cn != "B2" {
				Square(&out, &e.x)
				c.Step(1)
				c.Class("Square")
				want := fmul(e.v, e.v)
				if valueOf(&out).Cmp(want) != 0 {
					report("Square", e, nil, &out, want, "wrong residue")
				} else if !reducedBoundOK(&out) {
					report("Square", e, nil, &out, want, "output limbs exceed the reduced bound")
				}
			}
			if cn == "R" {
				Neg(&out, &e.x)
				c.Step(1)
				c.Class("Neg")
				want := fsub(big.NewInt(0), e.v)
				if valueOf(&out).Cmp(want) != 0 {
					report("Neg", e, nil, &out, want, "wrong residue")
				} else if !reducedBoundOK(&out) {
					report("Neg", e, nil, &out, want, "output limbs exceed the reduced bound")
				}
				Copy(&out, &e.x)
				if out != e.x {
					report("Copy", e, nil, &out, e.v, "copy differs")
				}
				// unary operations written over their operand (out == in), as the group law does
				t := e.x
				Neg(&t, &t)
				if valueOf(&t).Cmp(want) != 0 {
					report("Neg-inplace", e, nil, &t, want, "wrong residue when out aliases the operand")
				}
				t = e.x
				Square(&t, &t)
				if valueOf(&t).Cmp(fmul(e.v, e.v)) != 0 {
					report("Square-inplace", e, nil, &t, fmul(e.v, e.v), "wrong residue when out aliases the operand")
				}
				t = e.x
				SquareTimes(&t, &t, 3)
				w8 := fmul(fmul(fmul(e.v, e.v), fmul(e.v, e.v)), fmul(fmul(e.v, e.v), fmul(e.v, e.v)))
				if valueOf(&t).Cmp(w8) != 0 {
					report("SquareTimes-inplace", e, nil, &t, w8, "wrong residue when out aliases the operand")
				}
				t = e.x
				Copy(&t, &t)
				if t != e.x {
					report("Copy-inplace", e, nil, &t, e.v, "self copy changed the value")
				}
				c.Step(4)
			}
			// Contract: unique canonical value below p for every representation
			var cb [32]byte
			Contract(cb[:], &e.x)
			c.Step(1)
			wantB := ref.ToLE(e.v, 32)
			raw := new(big.Int)
			for i := nLimbs - 1; i >= 0; i-- {
				t := new(big.Int).SetUint64(uint64(e.x[i]))
				raw.Add(raw, t.Lsh(t, limbOff[i]))
			}
			if raw.Cmp(ref.P) >= 0 {
				c.Class("Contract/noncanonical")
			} else {
				c.Class("Contract/canonical")
			}
			if !bytes.Equal(cb[:], wantB) {
				var o Bignum25519
				Expand(&o, cb[:])
				report("Contract", e, nil, &o, e.v, fmt.Sprintf("serialised %x, canonical value is %x", cb, wantB))
			}
			// Expand(Contract) round trip and Expand ignoring bit 255
			var ex Bignum25519
			hb := cb
			hb[31] |= 0x80
			Expand(&ex, hb[:])
			c.Step(1)
			c.Class("Expand")
			if valueOf(&ex).Cmp(e.v) != 0 || !reducedBoundOK(&ex) {
				report("Expand", e, nil, &ex, e.v, "Expand(Contract(x) | bit255) != x or limbs out of bound")
			}
		}
	}
	// (4) repeated squaring, inversion, (p-5)/8 power on a subset
	small := append(append(append(append([]elem{}, Rs...), B1as...), B1ss...), Ns...)
	for ei := range small {
		if !c.Take() {
			continue
		}
		e := &small[ei]
		c.Distinct(fmt.Sprintf("pow %d", ei), true)
		var out Bignum25519
		for _, n := range []int{1, 2, 5, 10, 20, 50, 100} {
			SquareTimes(&out, &e.x, n)
			c.Step(1)
			c.Class("SquareTimes")
			want := new(big.Int).Exp(e.v, new(big.Int).Lsh(big.NewInt(1), uint(n)), ref.P)
			if valueOf(&out).Cmp(want) != 0 || !reducedBoundOK(&out) {
				report(fmt.Sprintf("SquareTimes(%d)", n), e, nil, &out, want, "wrong residue or bound")
			}
		}
		Recip(&out, &e.x)
		c.Step(1)
		c.Class("Recip")
		want := new(big.Int).Exp(e.v, new(big.Int).Sub(ref.P, big.NewInt(2)), ref.P)
		if valueOf(&out).Cmp(want) != 0 || !reducedBoundOK(&out) {
			report("Recip", e, nil, &out, want, "wrong residue or bound")
		}
		t := e.x
		Recip(&t, &t)
		if valueOf(&t).Cmp(want) != 0 {
			report("Recip-inplace", e, nil, &t, want, "wrong residue when out aliases the operand")
		}
		PowTwo252m3(&out, &e.x)
		c.Step(1)
		c.Class("PowTwo252m3")
		ex := new(big.Int).Sub(new(big.Int).Lsh(big.NewInt(1), 252), big.NewInt(3))
		want = new(big.Int).Exp(e.v, ex, ref.P)
		if valueOf(&out).Cmp(want) != 0 || !reducedBoundOK(&out) {
			report("PowTwo252m3", e, nil, &out, want, "wrong residue or bound")
		}
		t = e.x
		PowTwo252m3(&t, &t)
		if valueOf(&t).Cmp(want) != 0 {
			report("PowTwo252m3-inplace", e, nil, &t, want, "wrong residue when out aliases the operand")
		}
	}
	// (5) conditional swap: exactly a swap or a no-op
	for ai := range Rs {
		if !c.Take() {
			continue
		}
		c.Distinct(fmt.Sprintf("swap %d", ai), true)
		for bi := range B1ss {
			for _, sw := range []uint64{0, 1} {
				a, b := Rs[ai].x, B1ss[bi].x
				SwapConditional(&a, &b, sw)
				c.Step(1)
				okk := (sw == 0 && a == Rs[ai].x && b == B1ss[bi].x) || (sw == 1 && a == B1ss[bi].x && b == Rs[ai].x)
				if !okk {
					report("SwapConditional", &Rs[ai], &B1ss[bi], &a, Rs[ai].v, fmt.Sprintf("not a swap/no-op for iswap=%d", sw))
				}
			}
		}
		c.ClassN("SwapConditional", 2*len(B1ss))
	}
	// (5a) small constant multipliers (a24 = 121665 in the X25519 ladder, Z = 1, 2, 19, 38, powers of two):
	// the other operand's limbs at the WRAP POINTS of the multiplier - floor(m * 2^w / k) and the value
	// below it, for the machine word sizes w = 64 and 32 - with a maximal limb below it (largest carry
	// coming in). A column product k * limb that lands within the incoming carry of a multiple of 2^w
	// is where a word-wise shortcut for single-limb multipliers loses a carry.
	c.Require("Mul/small-constant")
	{
		ks := []uint64{1, 2, 3, 19, 38, 121665, 121666, 486662, 1<<17 - 1}
		for e := uint(10); e <= 20; e++ {
			ks = append(ks, 1<<e)
		}
		for ki, k := range ks {
			for li := 0; li < nLimbs; li++ {
				if !c.Take() {
					continue
				}
				c.Distinct(fmt.Sprintf("smallk %d %d", ki, li), true)
				bound := 4 * limbMask(li) // up to the size a basic Sub output takes
				var vals []uint64
				for _, w := range []uint{64, 32} {
					top := new(big.Int).Lsh(big.NewInt(1), w)
					mmax := new(big.Int).Mul(new(big.Int).SetUint64(bound), new(big.Int).SetUint64(k))
					mmax.Rsh(mmax, w)
					mm := mmax
					// (a word size below the limb size gives astronomically many wrap points: that word size
					// is not one the layout's column products are reduced by; skipped. The rest is thinned
					// to at most 96 (thorough 2048) multiples per constant, word size and limb.)
					if !mm.IsUint64() || mm.Uint64() > 1<<20 {
						continue
					}
					mmv := mm.Uint64()
					step := uint64(1)
					lim := uint64(96)
					if c.Thorough() {
						lim = 2048
					}
					if mmv > lim {
						step = mmv / lim
					}
					for m := uint64(1); m <= mmv; m += step {
						v := new(big.Int).Mul(new(big.Int).SetUint64(m), top)
						v.Div(v, new(big.Int).SetUint64(k))
						for j := uint64(0); j < 2; j++ {
							if x := v.Uint64() - j; x <= bound && v.Uint64() >= j {
								vals = append(vals, x)
							}
						}
					}
				}
				vals = append(vals, limbMask(li), 2*limbMask(li), 2*limbMask(li)+1)
				var kk elem
				kl := make([]uint64, nLimbs)
				kl[0] = k
				kk = mk(kl, "K")
				for _, v := range vals {
					for lower := 0; lower < 3; lower++ {
						l := make([]uint64, nLimbs)
						l[li] = v
						if li > 0 {
							l[li-1] = []uint64{limbMask(li - 1), 2 * limbMask(li-1), 0}[lower]
						} else if lower > 0 {
							continue
						}
						if lower == 1 {
							for i := range l {
								if i != li && i != li-1 {
									l[i] = limbMask(i)
								}
							}
						}
						a := mk(l, "W")
						want := fmul(a.v, kk.v)
						var o1, o2 Bignum25519
						Mul(&o1, &a.x, &kk.x)
						Mul(&o2, &kk.x, &a.x)
						c.Step(2)
						c.Class("Mul/small-constant")
						if valueOf(&o1).Mod(valueOf(&o1), ref.P).Cmp(want) != 0 || !reducedBoundOK(&o1) {
							report("Mul", &a, &kk, &o1, want, "wrong residue or limbs out of bound (limb at a wrap point of the constant)")
						}
						if valueOf(&o2).Mod(valueOf(&o2), ref.P).Cmp(want) != 0 || !reducedBoundOK(&o2) {
							report("Mul", &kk, &a, &o2, want, "wrong residue or limbs out of bound (limb at a wrap point of the constant)")
						}
					}
				}
			}
		}
	}
	// (5b) outputs are fully overwritten: same result into a zeroed and into a dirty output variable
	c.Require("dirty-output")
	var junk Bignum25519
	jl := make([]uint64, nLimbs)
	for i := range jl {
		jl[i] = limbMask(i) - uint64(3*i)
	}
	setLimbs(&junk, jl)
	for ai := range Rs {
		if !c.Take() {
			continue
		}
		c.Class("dirty-output")
		c.Distinct(fmt.Sprintf("dirty %d", ai), true)
		a := &Rs[ai]
		b := &B1as[(ai*7+1)%len(B1as)]
		type bf struct {
			name string
			f    func(out, x, y *Bignum25519)
		}
		for _, op := range []bf{{"Add", Add}, {"Sub", Sub}, {"AddReduce", AddReduce}, {"SubReduce", SubReduce}, {"AddAfterBasic", AddAfterBasic}, {"SubAfterBasic", SubAfterBasic}, {"Mul", Mul}} {
			var clean Bignum25519
			d := junk
			op.f(&clean, &a.x, &b.x)
			op.f(&d, &a.x, &b.x)
			c.Step(2)
			if clean != d {
				report(op.name+"-dirty-output", a, b, &d, valueOf(&clean), "result depends on the previous content of the output variable")
			}
		}
		for _, op := range []struct {
			name string
			f    func(out, x *Bignum25519)
		}{{"Square", Square}, {"Neg", Neg}, {"Copy", Copy}, {"Recip", Recip}, {"PowTwo252m3", PowTwo252m3}, {"SquareTimes5", func(o, x *Bignum25519) { SquareTimes(o, x, 5) }}} {
			var clean Bignum25519
			d := junk
			op.f(&clean, &a.x)
			op.f(&d, &a.x)
			c.Step(2)
			if clean != d {
				report(op.name+"-dirty-output", a, nil, &d, valueOf(&clean), "result depends on the previous content of the output variable")
			}
		}
		var cb [32]byte
		Contract(cb[:], &a.x)
		var e1 Bignum25519
		e2 := junk
		Expand(&e1, cb[:])
		Expand(&e2, cb[:])
		db := bytes.Repeat([]byte{0xEE}, 32)
		Contract(db, &a.x)
		if e1 != e2 || !bytes.Equal(db, cb[:]) {
			report("Expand/Contract-dirty-output", a, nil, &e2, a.v, "result depends on the previous content of the output")
		}
	}
	// (6) Expand on boundary strings: ignores bit 255, value = low 255 bits
	for k := 0; k < 255+64; k++ {
		if !c.Take() {
			continue
		}
		var s *big.Int
		if k < 255 {
			s = new(big.Int).Lsh(big.NewInt(1), uint(k))
		} else {
			s = new(big.Int).Sub(new(big.Int).Lsh(big.NewInt(1), 255), big.NewInt(int64(k-254)))
		}
		for _, d := range []int64{-1, 0, 1} {
			for hb := 0; hb < 2; hb++ {
				x := new(big.Int).Add(s, big.NewInt(d))
				if x.Sign() < 0 || x.BitLen() > 255 {
					continue
				}
				b := ref.ToLE(x, 32)
				b[31] |= byte(hb) << 7
				var e Bignum25519
				b = atAlign(b)
				Expand(&e, b)
				var back [32]byte
				Contract(back[:], &e)
				// ... and at every alignment of the input and of the output buffer
				for al := 0; al < 8; al++ {
					var e2 Bignum25519
					ib := atAlign(b)
					Expand(&e2, ib)
					ob := atAlign(make([]byte, 32))
					Contract(ob, &e2)
					if e2 != e || !bytes.Equal(ob, back[:]) {
						c.Violation("C18 Expand/Contract alignment", fmt.Sprintf("Expand / Contract of %x depends on the alignment of the byte buffer", b), map[string]interface{}{"string": ref.Hex(b)})
						break
					}
				}
				c.Step(2)
				c.Class("Expand")
				want := new(big.Int).Mod(x, ref.P)
				if valueOf(&e).Cmp(want) != 0 || !reducedBoundOK(&e) || !bytes.Equal(back[:], ref.ToLE(want, 32)) {
					c.Violation("C18 Expand/Contract boundary", fmt.Sprintf("Expand(%x): value or round trip wrong", b), map[string]interface{}{"string": ref.Hex(b), "limbs": fmt.Sprint(getLimbs(&e)), "contract": ref.Hex(back[:])})
				}
			}
		}
		c.Distinct(fmt.Sprintf("expand %d", k), true)
	}
}

// atAlign returns a copy of b that starts at address = k (mod 8) inside a larger buffer and keeps
// spare capacity behind it (callers hold keys and strings inside packed records, at any alignment).
var alignCounter int

func atAlign(b []byte) []byte {
	alignCounter++
	off := alignCounter & 7
	buf := make([]byte, len(b)+24)
	for i := range buf {
		buf[i] = 0xA5
	}
	copy(buf[off:], b)
	return buf[off : off+len(b)]
}
