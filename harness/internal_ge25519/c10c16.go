package ge25519

// C10 (decoding / encoding) and C16 (fixed-base and double-base scalar multiplication), in-package.

import (
	"bytes"
	"fmt"
	"math/big"
	"testing"

	"github.com/oasisprotocol/ed25519/internal/curve25519"
	"github.com/oasisprotocol/ed25519/internal/modm"
	ref "github.com/oasisprotocol/ed25519/internal/zzverifref"
	rt "github.com/oasisprotocol/ed25519/internal/zzverifrt"
)

func TestVerif(t *testing.T) {
	ran, err := rt.Main()
	if err != nil {
		t.Fatal(err)
	}
	if !ran {
		t.Skip("no VERIF_JOB")
	}
}

func init() {
	rt.Register("C10", jobC10)
	rt.Register("C16", jobC16)
}

func pow2(n uint) *big.Int { return new(big.Int).Lsh(big.NewInt(1), n) }
func badd(a *big.Int, k int64) *big.Int {
	return new(big.Int).Add(a, big.NewInt(k))
}

func fval(x *curve25519.Bignum25519) *big.Int {
	var b [32]byte
	curve25519.Contract(b[:], x)
	return ref.LE(b[:])
}

func fset(x *curve25519.Bignum25519, v *big.Int) {
	curve25519.Expand(x, ref.ToLE(new(big.Int).Mod(v, ref.P), 32))
}

var (
	a0, a1 *big.Int
	ptMemo = map[string]ref.Point{}
)

func init() {
	s0 := make([]byte, 32)
	s1 := make([]byte, 32)
	s1[0] = 1
	a0, _ = ref.ExpandSeed(s0)
	a1, _ = ref.ExpandSeed(s1)
}

type kpoint struct {
	k *big.Int
	t int
}

func (p kpoint) ref() ref.Point {
	key := p.k.String() + "|" + fmt.Sprint(p.t)
	if q, ok := ptMemo[key]; ok {
		return q
	}
	q := ref.BaseMul(p.k).Add(ref.Torsion(p.t))
	ptMemo[key] = q
	return q
}

// mulKnown returns [s]([k]B + T_t) + [s2]B through the group structure.
func mulKnown(p kpoint, s, s2 *big.Int) ref.Point {
	k := new(big.Int).Mul(s, p.k)
	k.Add(k, s2)
	k.Mod(k, ref.L)
	t := new(big.Int).Mul(s, big.NewInt(int64(p.t)))
	t.Mod(t, big.NewInt(8))
	return ref.BaseMul(k).Add(ref.Torsion(int(t.Int64())))
}

func nibScalars(thorough bool) [][]byte {
	var out [][]byte
	set := func(b []byte, pos int, v byte) {
		if pos%2 == 0 {
			b[pos/2] = b[pos/2]&0xf0 | v
		} else {
			b[pos/2] = b[pos/2]&0x0f | v<<4
		}
	}
	fills := []byte{0, 7, 8, 9, 15}
	if !thorough {
		fills = []byte{0, 8, 15}
	}
	for pos := 0; pos < 64; pos++ {
		for v := byte(0); v < 16; v++ {
			for _, f := range fills {
				b := bytes.Repeat([]byte{f | f<<4}, 32)
				set(b, pos, v)
				out = append(out, b)
			}
		}
	}
	for _, rv := range []byte{7, 8, 9, 15} {
		for start := 0; start < 64; start++ {
			for l := 1; start+l <= 64; l++ {
				if !thorough && !(start%5 == 0 && (l%7 == 1 || start+l == 64)) {
					continue
				}
				b := make([]byte, 32)
				for p := start; p < start+l; p++ {
					set(b, p, rv)
				}
				out = append(out, b)
			}
		}
	}
	return out
}

// carryRunScalars: a run of one digit value with the digit directly below it chosen to send (or
// not send) a carry into the run - the patterns on which a signed-digit recoding that handles
// carries limb by limb (56-bit, 30-bit) or with a bias trick differs from the serial one. Runs
// start at every nibble; lengths around one limb of either layout, and to the top.
func carryRunScalars(thorough bool) [][]byte {
	var out [][]byte
	set := func(b []byte, pos int, v byte) {
		if pos%2 == 0 {
			b[pos/2] = b[pos/2]&0xf0 | v
		} else {
			b[pos/2] = b[pos/2]&0x0f | v<<4
		}
	}
	lens := []int{7, 8, 14, 15}
	if thorough {
		lens = []int{6, 7, 8, 9, 13, 14, 15, 16, 28}
	}
	for _, rv := range []byte{7, 8, 15, 0} {
		for _, below := range []byte{8, 15, 7} {
			for _, fill := range []byte{0, 0xa} {
				for start := 1; start < 64; start++ {
					ls := append([]int{}, lens...)
					ls = append(ls, 64-start)
					for _, l := range ls {
						if start+l > 64 {
							continue
						}
						b := bytes.Repeat([]byte{fill | fill<<4}, 32)
						for p := start; p < start+l; p++ {
							set(b, p, rv)
						}
						set(b, start-1, below)
						out = append(out, b)
					}
				}
			}
		}
	}
	return out
}

func nielsOf(p ref.Point) (ysubx, xaddy, t2d *big.Int) {
	x, y := p.Affine()
	ysubx = new(big.Int).Sub(y, x)
	ysubx.Mod(ysubx, ref.P)
	xaddy = new(big.Int).Add(y, x)
	xaddy.Mod(xaddy, ref.P)
	t2d = new(big.Int).Mul(x, y)
	t2d.Mul(t2d, ref.D)
	t2d.Lsh(t2d, 1)
	t2d.Mod(t2d, ref.P)
	return
}

func jobC16(c *rt.Ctx) {
	c.Require("selector", "sliding-table", "constants", "fixed/reduced", "fixed/raw-clamped", "double/W5", "double/W7", "double/small-order-P", "double/zero-scalars")
	// ---- selector: complete finite domain 32 rows x 17 digits -----------------------------------
	for row := 0; row < 32; row++ {
		for b := -8; b <= 8; b++ {
			if !c.Take() {
				continue
			}
			var t ge25519niels
			scalarmultBaseChooseNiels(&t, &NielsBaseMultiples, row, int8(b))
			c.Step(1)
			c.Class("selector")
			c.Distinct(fmt.Sprintf("sel %d %d", row, b), b != 0)
			k := new(big.Int).Lsh(big.NewInt(1), uint(8*row))
			k.Mul(k, big.NewInt(int64(b)))
			k.Mod(k, ref.L)
			wy, wx, wt := nielsOf(ref.BaseMul(k))
			if row == 0 {
				// row 0 stores 2xy in the third slot (it seeds T of the accumulator directly and is
				// multiplied by d before its use as a niels addend in ScalarmultBaseNiels)
				wt.Mul(wt, new(big.Int).ModInverse(ref.D, ref.P))
				wt.Mod(wt, ref.P)
			}
			gy, gx, gt := fval(&t.ysubx), fval(&t.xaddy), fval(&t.t2d)
			if c.WantSample() && b == -8 {
				c.Sample(map[string]interface{}{"op": "scalarmultBaseChooseNiels", "row": row, "digit": b, "ysubx": gy.String(), "xaddy": gx.String(), "t2d": gt.String()})
			}
			if gy.Cmp(wy) != 0 || gx.Cmp(wx) != 0 || gt.Cmp(wt) != 0 {
				c.Violation(fmt.Sprintf("C16 selector digit=%d", b), fmt.Sprintf("table selection row %d digit %d is not the niels form of [%d*256^%d]B", row, b, b, row),
					map[string]interface{}{"row": row, "digit": b, "ysubx": gy.String(), "xaddy": gx.String(), "t2d": gt.String(), "want_ysubx": wy.String(), "want_xaddy": wx.String(), "want_t2d": wt.String()})
			}
		}
	}
	// ---- sliding table and constants -----------------------------------------------------------------
	for i := 0; i < 32; i++ {
		if !c.Take() {
			continue
		}
		c.Class("sliding-table")
		c.Step(1)
		c.Distinct(fmt.Sprintf("slt %d", i), true)
		e := nielsSlidingMultiples[i]
		wy, wx, wt := nielsOf(ref.BaseMul(big.NewInt(int64(2*i + 1))))
		if fval(&e.ysubx).Cmp(wy) != 0 || fval(&e.xaddy).Cmp(wx) != 0 || fval(&e.t2d).Cmp(wt) != 0 {
			c.Violation("C16 sliding-table", fmt.Sprintf("nielsSlidingMultiples[%d] is not [%d]B", i, 2*i+1), map[string]interface{}{"index": i})
		}
	}
	if c.Take() {
		c.Class("constants")
		c.Step(5)
		c.Distinct("constants", true)
		bx, by := ref.Base().Affine()
		bp := Basepoint
		d2 := new(big.Int).Lsh(ref.D, 1)
		d2.Mod(d2, ref.P)
		sq := fval(&sqrtNeg1)
		sq2 := new(big.Int).Mul(sq, sq)
		sq2.Mod(sq2, ref.P)
		if fval(&bp.x).Cmp(bx) != 0 || fval(&bp.y).Cmp(by) != 0 || fval(&bp.z).Cmp(big.NewInt(1)) != 0 || fval(&bp.t).Cmp(new(big.Int).Mod(new(big.Int).Mul(bx, by), ref.P)) != 0 ||
			fval(&ecd).Cmp(ref.D) != 0 || fval(&ec2d).Cmp(d2) != 0 || sq2.Cmp(badd(ref.P, -1)) != 0 {
			c.Violation("C16 constants", "Basepoint / ecd / ec2d / sqrtNeg1 do not have their defined values", nil)
		}
	}
	// ---- fixed base ------------------------------------------------------------------------------------
	nib := append(nibScalars(c.Thorough()), carryRunScalars(c.Thorough())...)
	for _, x := range []*big.Int{big.NewInt(0), big.NewInt(1), big.NewInt(2), big.NewInt(8), badd(ref.L, -1), pow2(252), badd(pow2(255), -8), pow2(254), badd(pow2(254), 8), a0, a1} {
		nib = append(nib, ref.ToLE(x, 32))
	}
	for i, s := range nib {
		if !c.Take() {
			continue
		}
		c.Distinct(fmt.Sprintf("fixed %d", i), true)
		// reduced callers (Expand) ...
		var sc modm.Bignum256
		var r Ge25519
		modm.Expand(&sc, s)
		ScalarmultBaseNiels(&r, &NielsBaseMultiples, &sc)
		var out [32]byte
		Pack(out[:], &r)
		c.Step(1)
		c.Class("fixed/reduced")
		want := ref.BaseMul(new(big.Int).Mod(ref.LE(s), ref.L)).Encode()
		tOK := fval(&r.t).Cmp(new(big.Int).Mod(new(big.Int).Mul(new(big.Int).Mul(fval(&r.x), fval(&r.y)), new(big.Int).ModInverse(fval(&r.z), ref.P)), ref.P)) == 0
		if !bytes.Equal(out[:], want) || !tOK {
			c.Violation("C16 fixed-base reduced", fmt.Sprintf("[s]B wrong for s = %x mod L (T coordinate consistent: %v)", s, tOK), map[string]interface{}{"scalar": ref.Hex(s), "expected": ref.Hex(want), "observed": ref.Hex(out[:])})
		}
		// ... and the X25519 caller (ExpandRaw of a clamped 255-bit scalar)
		cl := append([]byte{}, s...)
		cl[0] &= 248
		cl[31] &= 127
		cl[31] |= 64
		modm.ExpandRaw(&sc, cl)
		ScalarmultBaseNiels(&r, &NielsBaseMultiples, &sc)
		Pack(out[:], &r)
		c.Step(1)
		c.Class("fixed/raw-clamped")
		want = ref.BaseMul(ref.LE(cl)).Encode()
		if !bytes.Equal(out[:], want) {
			c.Violation("C16 fixed-base raw", fmt.Sprintf("[s]B wrong for clamped s = %x", cl), map[string]interface{}{"scalar": ref.Hex(cl), "expected": ref.Hex(want), "observed": ref.Hex(out[:])})
		}
	}
	// ---- stack position: the fixed-base multiplication started at EVERY stack depth (8-byte steps up to
	// 72 KB, i.e. across the 2, 4, ..., 64 KB relocations of a goroutine stack) on fresh goroutines. The
	// table selector works on a buffer in its caller's frame; whichever function entry finds the stack
	// exhausted, the result is [s]B.
	c.Require("fixed/stack-sweep")
	// (the relocation happens at the FIRST entry of the deepest function: the scalars make that first
	// table lookup - digit 1 of the radix-16 recoding - select entry +1, -1, +8 and an arbitrary one)
	for si, sb := range [][]byte{ref.ToLE(badd(pow2(252), 0x1110), 32), ref.ToLE(badd(pow2(251), 0x21f0), 32), ref.ToLE(badd(pow2(252), 0x1180), 32), ref.ToLE(a0, 32)} {
		if !c.Take() {
			continue
		}
		c.Class("fixed/stack-sweep")
		c.Distinct(fmt.Sprintf("stack %d", si), true)
		var sc modm.Bignum256
		modm.Expand(&sc, sb)
		want := ref.BaseMul(new(big.Int).Mod(ref.LE(sb), ref.L)).Encode()
		badDepth, run := -1, 0
		var got [32]byte
		maxB := 72 << 10
		if si >= 2 && !c.Thorough() {
			maxB = 20 << 10
		}
		n := rt.StackSweep(maxB, func() {
			var r Ge25519
			var out [32]byte
			ScalarmultBaseNiels(&r, &NielsBaseMultiples, &sc)
			Pack(out[:], &r)
			if badDepth < 0 && !bytes.Equal(out[:], want) {
				badDepth, got = run, out
			}
			run++
		}, func() bool { return badDepth >= 0 })
		c.Step(n)
		fa, fb := rt.FrameSizes()
		c.ExtraMax("stack_sweep_depths", int64(n))
		if badDepth >= 0 {
			c.Violation("C16 fixed-base stack-sweep", fmt.Sprintf("[s]B wrong for s = %x when the multiplication starts at stack depth #%d of the sweep (frames of %d and %d bytes): %x, expected %x", sb, badDepth, fa, fb, got, want),
				map[string]interface{}{"scalar": ref.Hex(sb), "depth_index": badDepth, "expected": ref.Hex(want), "observed": ref.Hex(got[:])})
		}
	}
	// ---- double base -------------------------------------------------------------------------------------
	wAlpha := func(maxd int64, thorough bool) []*big.Int {
		var out []*big.Int
		istep := uint(7)
		if thorough {
			istep = 1
		}
		for d := int64(1); d < maxd; d += 2 {
			for i := uint(0); i <= 252; i += istep {
				x := new(big.Int).Lsh(big.NewInt(d), i)
				if x.Cmp(ref.L) < 0 {
					out = append(out, x)
				}
			}
		}
		for _, off := range []uint{0, 1, 124, 251} {
			for l := uint(1); off+l <= 252; l++ {
				if !thorough && l%5 != 1 && off+l != 252 {
					continue
				}
				out = append(out, new(big.Int).Lsh(badd(pow2(l), -1), off))
			}
		}
		return append(out, big.NewInt(0), big.NewInt(1), badd(ref.L, -1), badd(ref.L, -2))
	}
	W5 := wAlpha(32, c.Thorough())
	W7 := wAlpha(128, c.Thorough())
	allP := []kpoint{{big.NewInt(1), 0}, {badd(ref.L, -1), 0}, {a0, 0}, {a1, 0}, {big.NewInt(0), 1}, {big.NewInt(0), 2}, {big.NewInt(0), 3}, {big.NewInt(0), 4}, {big.NewInt(0), 5}, {big.NewInt(0), 6}, {big.NewInt(0), 7},
		{big.NewInt(1), 4}, {a0, 7}, {big.NewInt(0), 0}}
	P5 := allP
	if !c.Thorough() {
		P5 = []kpoint{allP[2], allP[7], allP[12], allP[1], allP[13]}
	}
	runDouble := func(class string, p kpoint, s1, s2 *big.Int, neg bool) {
		var P, r, full Ge25519
		enc := p.ref().Encode()
		okU := false
		if neg {
			// as verification does: the point comes out of UnpackNegativeVartime (-P)
			okU = UnpackNegativeVartime(&P, enc)
		} else {
			okU = UnpackVartime(&P, enc)
		}
		if !okU {
			c.Fail("cannot unpack constructed point")
			return
		}
		var m1, m2 modm.Bignum256
		modm.Expand(&m1, ref.ToLE(s1, 32))
		modm.Expand(&m2, ref.ToLE(s2, 32))
		DoubleScalarmultVartime(&r, &P, &m1, &m2)
		ProjectiveToExtended(&full, &r)
		var out [32]byte
		Pack(out[:], &full)
		c.Step(1)
		c.Class(class)
		if p.k.Sign() == 0 {
			c.Class("double/small-order-P")
		}
		if s1.Sign() == 0 || s2.Sign() == 0 {
			c.Class("double/zero-scalars")
		}
		pp := p
		if neg {
			pp = kpoint{new(big.Int).Mod(new(big.Int).Neg(p.k), ref.L), (8 - p.t) % 8}
		}
		want := mulKnown(pp, s1, s2).Encode()
		if !bytes.Equal(out[:], want) {
			c.Violation(fmt.Sprintf("C16 double-base %s", class), fmt.Sprintf("[s1]P + [s2]B wrong for s1=%s s2=%s P=[%s]B+T_%d (negated unpack: %v)", s1, s2, p.k, p.t, neg),
				map[string]interface{}{"s1": s1.String(), "s2": s2.String(), "P": ref.Hex(enc), "negated": neg, "expected": ref.Hex(want), "observed": ref.Hex(out[:])})
		}
		// the same point in another projective form (every coordinate times 3, as the output of a group
		// operation would have it: Z != 1)
		{
			var three curve25519.Bignum25519
			fset(&three, big.NewInt(3))
			ps := P
			curve25519.Mul(&ps.x, &P.x, &three)
			curve25519.Mul(&ps.y, &P.y, &three)
			curve25519.Mul(&ps.z, &P.z, &three)
			curve25519.Mul(&ps.t, &P.t, &three)
			var rs, fs Ge25519
			DoubleScalarmultVartime(&rs, &ps, &m1, &m2)
			ProjectiveToExtended(&fs, &rs)
			var outS [32]byte
			Pack(outS[:], &fs)
			c.Step(1)
			if !bytes.Equal(outS[:], want) {
				c.Violation(fmt.Sprintf("C16 double-base projective-P %s", class), fmt.Sprintf("[s1]P + [s2]B wrong for P given as (3X : 3Y : 3Z : 3T), s1=%s s2=%s P=[%s]B+T_%d", s1, s2, p.k, p.t),
					map[string]interface{}{"s1": s1.String(), "s2": s2.String(), "P": ref.Hex(enc), "expected": ref.Hex(want), "observed": ref.Hex(outS[:])})
			}
		}
		// the same call with the result written over the point argument (r == p1), as the group
		// operations of this package are used elsewhere (Double(r, r), CofactorMultiply(&t, &t))
		pin := P
		DoubleScalarmultVartime(&pin, &pin, &m1, &m2)
		var fin Ge25519
		ProjectiveToExtended(&fin, &pin)
		var outIn [32]byte
		Pack(outIn[:], &fin)
		c.Step(1)
		if !bytes.Equal(outIn[:], want) {
			c.Violation(fmt.Sprintf("C16 double-base in-place %s", class), fmt.Sprintf("DoubleScalarmultVartime(&P, &P, s1, s2) wrong for s1=%s s2=%s P=[%s]B+T_%d", s1, s2, p.k, p.t),
				map[string]interface{}{"s1": s1.String(), "s2": s2.String(), "P": ref.Hex(enc), "expected": ref.Hex(want), "observed": ref.Hex(outIn[:])})
		}
	}
	for pi, p := range P5 {
		for i, s1 := range W5 {
			for j, s2 := range []*big.Int{big.NewInt(0), big.NewInt(1), a0} {
				if !c.Take() {
					continue
				}
				c.Distinct(fmt.Sprintf("d5 %d %d %d", pi, i, j), true)
				runDouble("double/W5", p, s1, s2, (i+j)%2 == 0)
			}
		}
	}
	for pi, p := range []kpoint{allP[0], allP[2]} {
		for j, s1 := range []*big.Int{big.NewInt(0), big.NewInt(1), a0} {
			for i, s2 := range W7 {
				if !c.Take() {
					continue
				}
				c.Distinct(fmt.Sprintf("d7 %d %d %d", pi, i, j), true)
				runDouble("double/W7", p, s1, s2, (i+j)%2 == 1)
			}
		}
	}
	// ---- dense recodings: scalars whose sliding-window recoding has the MAXIMUM number of non-zero digits
	// (and every density below it): (1) every periodic bit pattern of period <= 8 (thorough: <= 11),
	// plus and minus one; (2) for both window widths, every odd digit value of either sign repeated at
	// spacing w and w+1 from every phase (negative digits: the borrow chain ends in a +1 digit on top)
	c.Require("double/dense")
	var dense []*big.Int
	addDense := func(x *big.Int) {
		if x.Sign() >= 0 && x.Cmp(ref.L) < 0 {
			dense = append(dense, x)
		}
	}
	maxPeriod := uint(8)
	if c.Thorough() {
		maxPeriod = 11
	}
	for k := uint(1); k <= maxPeriod; k++ {
		for pat := int64(1); pat < 1<<k; pat++ {
			x := new(big.Int)
			for pos := uint(0); pos < 252; pos += k {
				x.Or(x, new(big.Int).Lsh(big.NewInt(pat), pos))
			}
			x.And(x, badd(pow2(252), -1))
			addDense(x)
			addDense(badd(x, 1))
			addDense(badd(x, -1))
		}
	}
	nPeriodic := len(dense)
	for _, w := range []uint{5, 7} {
		for d := int64(1); d < 1<<(w-1); d += 2 {
			for _, sign := range []int64{1, -1} {
				for _, spacing := range []uint{w, w + 1} {
					for phase := uint(0); phase < spacing; phase++ {
						if !c.Thorough() && (uint(d)+phase+spacing)%3 != 0 && phase != 0 {
							continue
						}
						x := new(big.Int)
						pos := phase
						for ; pos+w <= 253; pos += spacing {
							x.Add(x, new(big.Int).Lsh(big.NewInt(sign*d), pos))
						}
						if sign < 0 {
							x.Add(x, pow2(pos)) // the +1 digit that closes the borrow chain
						}
						addDense(x)
					}
				}
			}
		}
	}
	for i, x := range dense {
		if !c.Take() {
			continue
		}
		c.Distinct(fmt.Sprintf("dense %d", i), true)
		p := allP[2]
		if i%4 == 3 {
			p = allP[12]
		}
		other := dense[(i*7+nPeriodic/2)%len(dense)]
		a0r := new(big.Int).Mod(a0, ref.L) // reduced: with a mixed-order P the torsion part depends on the scalar itself
		runDouble("double/dense", p, x, a0r, i%2 == 0)
		runDouble("double/dense", p, a0r, x, i%2 == 1)
		runDouble("double/dense", p, x, big.NewInt(0), i%2 == 0)
		runDouble("double/dense", p, big.NewInt(0), x, i%2 == 1)
		runDouble("double/dense", p, x, other, i%2 == 0)
	}
	// output parameters are fully overwritten: the result must not depend on what the output variable
	// held before (VerifyBatch reuses its point and scalar slots from one chunk to the next)
	c.Require("dirty-output")
	// (scalars are reduced mod L first: the multiplication takes reduced scalars, and the torsion
	// component of the expected result depends on the reduced value)
	for i, s1 := range []*big.Int{big.NewInt(0), big.NewInt(1), new(big.Int).Mod(a0, ref.L), badd(ref.L, -1), pow2(252)} {
		for j, s2 := range []*big.Int{big.NewInt(0), big.NewInt(1), new(big.Int).Mod(a1, ref.L)} {
			for pi, p := range []kpoint{allP[0], allP[7], allP[12], allP[13]} {
				if !c.Take() {
					continue
				}
				c.Class("dirty-output")
				c.Distinct(fmt.Sprintf("dirty %d %d %d", i, j, pi), true)
				enc := p.ref().Encode()
				var m1, m2 modm.Bignum256
				modm.Expand(&m1, ref.ToLE(s1, 32))
				modm.Expand(&m2, ref.ToLE(s2, 32))
				P := dirty()
				if !UnpackNegativeVartime(&P, enc) {
					c.Violation("C16 dirty-output decode", fmt.Sprintf("UnpackNegativeVartime into a destination that already held a point refuses the valid encoding %x", enc), map[string]interface{}{"P": ref.Hex(enc)})
					continue
				}
				var Pf Ge25519
				UnpackNegativeVartime(&Pf, enc)
				r, full, q, ad, db := dirty(), dirty(), dirty(), dirty(), dirty()
				DoubleScalarmultVartime(&r, &P, &m1, &m2)
				ProjectiveToExtended(&full, &r)
				CofactorMultiply(&q, &Pf)
				Add(&ad, &Pf, &Pf)
				Double(&db, &Pf)
				fb := dirty()
				ScalarmultBaseNiels(&fb, &NielsBaseMultiples, &m1)
				var o1, o2, o3, o4, o5, o6 [32]byte
				for k := range o1 {
					o1[k], o2[k], o3[k], o4[k], o5[k], o6[k] = 0xAA, 0xAA, 0xAA, 0xAA, 0xAA, 0xAA
				}
				Pack(o1[:], &full)
				Pack(o2[:], &q)
				Pack(o3[:], &ad)
				Pack(o4[:], &db)
				Pack(o5[:], &fb)
				Pack(o6[:], &P)
				c.Step(6)
				neg := kpoint{new(big.Int).Mod(new(big.Int).Neg(p.k), ref.L), (8 - p.t) % 8}
				wantD := mulKnown(neg, s1, s2).Encode()
				np := neg.ref()
				bad := ""
				switch {
				case !bytes.Equal(o1[:], wantD):
					bad = "DoubleScalarmultVartime / ProjectiveToExtended"
				case !bytes.Equal(o2[:], np.MulInt(8).Encode()):
					bad = "CofactorMultiply"
				case !bytes.Equal(o3[:], np.Double().Encode()):
					bad = "Add"
				case !bytes.Equal(o4[:], np.Double().Encode()):
					bad = "Double"
				case !bytes.Equal(o5[:], ref.BaseMul(s1).Encode()):
					bad = "ScalarmultBaseNiels"
				case !bytes.Equal(o6[:], np.Encode()):
					bad = "UnpackNegativeVartime / Pack"
				}
				if bad != "" {
					c.Violation("C16 dirty-output "+bad, fmt.Sprintf("%s: the result depends on the previous content of the output variable (s1=%s s2=%s P=%x)", bad, s1, s2, enc), map[string]interface{}{"function": bad, "s1": s1.String(), "s2": s2.String(), "P": ref.Hex(enc)})
				}
			}
		}
	}
	// one exact check of the structured expectation against a direct model computation
	if c.Take() {
		p := allP[12]
		s1, s2 := badd(ref.L, -2), a1
		if !mulKnown(p, s1, s2).Equal(p.ref().Mul(s1).Add(ref.BaseMul(s2))) {
			c.Fail("model self-check: structured double-base expectation differs from the direct sum")
		}
	}
}

func jobC10(c *rt.Ctx) {
	c.Require("decode/ok/root-direct", "decode/ok/root-times-sqrtm1", "decode/reject", "decode/x=0", "decode/noncanonical-y", "pack/scaled", "roundtrip")
	var strs [][]byte
	lim := 1 << 14
	if c.Thorough() {
		lim = 1 << 18
	}
	for y := 0; y < lim; y++ {
		for s := 0; s < 2; s++ {
			b := make([]byte, 32)
			b[0], b[1], b[2] = byte(y), byte(y>>8), byte(y>>16)
			b[31] = byte(s) << 7
			strs = append(strs, b)
		}
	}
	top := 1 << 9
	if c.Thorough() {
		top = 1 << 12
	}
	for d := 1; d <= top; d++ {
		for s := 0; s < 2; s++ {
			b := ref.ToLE(badd(pow2(255), -int64(d)), 32)
			b[31] |= byte(s) << 7
			strs = append(strs, b)
		}
	}
	for k := uint(13); k < 255; k++ {
		for _, d := range []int64{-1, 0, 1} {
			for s := 0; s < 2; s++ {
				b := ref.ToLE(badd(pow2(k), d), 32)
				b[31] |= byte(s) << 7
				strs = append(strs, b)
			}
		}
	}
	for i := 0; i < 64; i++ {
		seed := make([]byte, 32)
		seed[0] = byte(i)
		strs = append(strs, ref.Public(seed))
	}
	// points whose x (or p - x) is tiny: the internal representation of x may then be x + p, whose
	// low bit is NOT the parity of the canonical x (sign handling must use the fully reduced value)
	smallX := smallXPoints(40)
	c.Extra("small_x_points", int64(len(smallX)))
	for _, pt := range smallX {
		for _, e := range ref.Encodings(pt) {
			strs = append(strs, e)
			f := append([]byte{}, e...)
			f[31] ^= 0x80 // the other sign: decodes to the negation (or is the x = 0 alternative)
			strs = append(strs, f)
		}
	}
	// strings whose root-check value inside decoding ((x0^2 den - num) or (x0^2 den + num), with
	// x0^2 den = zeta * num for a 4th root of unity zeta) has exactly ONE non-zero byte: the zero
	// tests of the decoder must look at every byte of the field element
	sparse := sparseCheckStrings()
	c.Extra("sparse_check_strings", int64(len(sparse)))
	strs = append(strs, sparse...)
	e38 := new(big.Int).Rsh(badd(ref.P, -5), 3)
	for _, b := range strs {
		if !c.Take() {
			continue
		}
		want, dec := ref.Decode(b)
		in := atAlign(b)
		var P, N Ge25519
		ok1 := UnpackVartime(&P, in)
		ok2 := UnpackNegativeVartime(&N, in)
		// ... and from a LONGER buffer whose first 32 bytes are the string (VerifyBatch hands the whole
		// 64-byte signature to the decoder): only the first 32 bytes count, for both decoders
		for _, tailByte := range []byte{0x00, 0x80, 0xff} {
			long := append(append([]byte{}, b...), bytes.Repeat([]byte{tailByte}, 32)...)
			var Pl, Nl Ge25519
			l1, l2 := UnpackVartime(&Pl, long), UnpackNegativeVartime(&Nl, long)
			if l1 != ok1 || l2 != ok2 || (ok1 && (Pl != P || Nl != N)) {
				c.Violation("C10 decode long-buffer", fmt.Sprintf("decoding %x from a 64-byte buffer (tail bytes %#x) differs from decoding the 32-byte string", b, tailByte), map[string]interface{}{"string": ref.Hex(b), "tail": tailByte})
				break
			}
		}
		// ... and into destinations that already hold a point (VerifyBatch decodes every chunk into the
		// same heap slots): same verdict, same point
		Pd, Nd := dirty(), dirty()
		if d1, d2 := UnpackVartime(&Pd, in), UnpackNegativeVartime(&Nd, in); d1 != ok1 || d2 != ok2 || (ok1 && (Pd != P || Nd != N)) {
			c.Violation("C10 decode dirty-destination", fmt.Sprintf("decoding %x into a destination that already held a point gives a different verdict or point (fresh %v/%v, dirty %v/%v)", b, ok1, ok2, d1, d2), map[string]interface{}{"string": ref.Hex(b)})
		}
		c.Step(2)
		rawy := ref.LE(b)
		rawy.SetBit(rawy, 255, 0)
		if rawy.Cmp(ref.P) >= 0 {
			c.Class("decode/noncanonical-y")
		}
		c.DistinctB(dec, []byte("dec"), b)
		if !dec {
			c.Class("decode/reject")
		} else {
			// which square-root branch does this input exercise? (model-side classification)
			y := ref.YOf(b)
			y2 := new(big.Int).Mul(y, y)
			num := new(big.Int).Sub(y2, big.NewInt(1))
			num.Mod(num, ref.P)
			den := new(big.Int).Mul(ref.D, y2)
			den.Add(den, big.NewInt(1))
			den.Mod(den, ref.P)
			d3 := new(big.Int).Exp(den, big.NewInt(3), ref.P)
			d7 := new(big.Int).Exp(den, big.NewInt(7), ref.P)
			cand := new(big.Int).Mul(num, d7)
			cand.Exp(cand.Mod(cand, ref.P), e38, ref.P)
			cand.Mul(cand, d3)
			cand.Mul(cand, num)
			cand.Mod(cand, ref.P)
			chk := new(big.Int).Mul(cand, cand)
			chk.Mul(chk, den)
			chk.Mod(chk, ref.P)
			x, _ := want.Affine()
			switch {
			case x.Sign() == 0:
				c.Class("decode/x=0")
			case chk.Cmp(num) == 0:
				c.Class("decode/ok/root-direct")
			default:
				c.Class("decode/ok/root-times-sqrtm1")
			}
		}
		bad := ok1 != dec || ok2 != dec || !bytes.Equal(in, b)
		var o1, o2 [32]byte
		if !bad && dec {
			Pack(o1[:], &P)
			Pack(o2[:], &N)
			c.Step(2)
			bad = !bytes.Equal(o1[:], want.Encode()) || !bytes.Equal(o2[:], want.Neg().Encode())
			// internal consistency of the decoded extended point: Z = 1, T = XY
			bad = bad || fval(&P.z).Cmp(big.NewInt(1)) != 0 || fval(&P.t).Cmp(new(big.Int).Mod(new(big.Int).Mul(fval(&P.x), fval(&P.y)), ref.P)) != 0
			// decode of the canonical encoding is the identity; canonical form is unique
			var Q Ge25519
			if !UnpackVartime(&Q, o1[:]) {
				bad = true
			} else {
				var o3 [32]byte
				Pack(o3[:], &Q)
				bad = bad || o3 != o1
			}
			c.Class("roundtrip")
		}
		if c.WantSample() && dec && rawy.Cmp(ref.P) >= 0 {
			c.Sample(map[string]interface{}{"string": ref.Hex(b), "decodes_to": ref.Hex(want.Encode()), "note": "y >= p"})
		}
		if bad {
			c.Violation(fmt.Sprintf("C10 decode decodable=%v", dec), fmt.Sprintf("decoding %x: ok=%v/%v (model %v), re-encoded %x / %x", b, ok1, ok2, dec, o1, o2),
				map[string]interface{}{"string": ref.Hex(b), "model_decodable": dec, "ok": ok1, "ok_negative": ok2, "pack": ref.Hex(o1[:]), "pack_negative": ref.Hex(o2[:])})
		}
	}
	// Pack of non-normalised representations
	zs := []*big.Int{big.NewInt(1), big.NewInt(2), badd(ref.P, -1), badd(pow2(255), -20), a0, big.NewInt(19)}
	// the scale factor is an input like any other: single-limb values at every limb boundary of both
	// layouts (Z = 2^51 is stored as limbs {0,1,0,0,0}), their neighbours, and values whose limbs are all
	// 0/1 or all equal - a test "Z is one" written over a fold of the limbs takes these for 1
	lay64 := []uint{0, 51, 102, 153, 204}
	lay32 := []uint{0, 26, 51, 77, 102, 128, 153, 179, 204, 230}
	for _, lay := range [][]uint{lay64, lay32} {
		ones, twos, alt := new(big.Int), new(big.Int), new(big.Int)
		for i, b := range lay {
			ones.Add(ones, pow2(b))
			twos.Add(twos, pow2(b+1))
			if i%2 == 1 {
				alt.Add(alt, pow2(b))
			}
			if b == 0 {
				continue
			}
			zs = append(zs, pow2(b), badd(pow2(b), 1), badd(pow2(b), -1), new(big.Int).Add(pow2(b), pow2(lay[i-1])))
		}
		zs = append(zs, ones, twos, alt, badd(alt, 1))
	}
	var pts []ref.Point
	for i := 0; i < 8; i++ {
		pts = append(pts, ref.Torsion(i))
	}
	np := 24
	if c.Thorough() {
		np = 500
	}
	for i := 1; i <= np; i++ {
		pts = append(pts, ref.BaseMul(big.NewInt(int64(i))))
	}
	pts = append(pts, ref.BaseMul(a0), ref.BaseMul(badd(ref.L, -1)).Add(ref.Torsion(3)))
	pts = append(pts, smallXPoints(40)...)
	for pi, p := range pts {
		for zi, z := range zs {
			if !c.Take() {
				continue
			}
			c.Distinct(fmt.Sprintf("pack %d %d", pi, zi), true)
			x, y := p.Affine()
			var g Ge25519
			fset(&g.x, new(big.Int).Mul(x, z))
			fset(&g.y, new(big.Int).Mul(y, z))
			fset(&g.z, z)
			fset(&g.t, new(big.Int).Mul(new(big.Int).Mul(x, y), z))
			var out [32]byte
			Pack(out[:], &g)
			c.Step(1)
			c.Class("pack/scaled")
			want := p.Encode()
			if !bytes.Equal(out[:], want) {
				c.Violation("C10 pack scaled", fmt.Sprintf("Pack of (x z : y z : z) is %x, canonical encoding is %x", out, want), map[string]interface{}{"expected": ref.Hex(want), "observed": ref.Hex(out[:]), "z": z.String()})
			}
		}
	}
}

// smallXPoints returns the curve points with x in [0, lim) or p - x in (0, lim): y^2 = (1 + x^2)/(1 - d x^2).
func smallXPoints(lim int64) []ref.Point {
	var out []ref.Point
	for xi := int64(0); xi < lim; xi++ {
		x := big.NewInt(xi)
		x2 := new(big.Int).Mul(x, x)
		num := new(big.Int).Add(big.NewInt(1), x2)
		den := new(big.Int).Mul(ref.D, x2)
		den.Sub(big.NewInt(1), den)
		den.Mod(den, ref.P)
		y2 := new(big.Int).Mul(num, new(big.Int).ModInverse(den, ref.P))
		y2.Mod(y2, ref.P)
		y := new(big.Int).ModSqrt(y2, ref.P)
		if y == nil {
			continue
		}
		for _, yy := range []*big.Int{y, new(big.Int).Sub(ref.P, y)} {
			for _, xx := range []*big.Int{x, new(big.Int).Mod(new(big.Int).Neg(x), ref.P)} {
				p := ref.FromAffine(xx, new(big.Int).Mod(yy, ref.P))
				if p.OnCurve() {
					dup := false
					for _, q := range out {
						if q.Equal(p) {
							dup = true
						}
					}
					if !dup {
						out = append(out, p)
					}
				}
			}
		}
	}
	return out
}

func init() { rt.Register("C09g", jobC09g) }

// jobC09g (part of C09): the group-level pieces behind small-order rejection on non-normalised and
// unreduced representations: CofactorMultiply == [8]P, IsNeutralVartime == "is the identity" for
// every representation (X:Y:Z:T) of torsion, mixed-order and prime-order points.
func jobC09g(c *rt.Ctx) {
	c.Require("neutral/true", "neutral/false", "cofactor", "neutral/sparse")
	// the identity test must look at every byte of X and of Y - Z: coordinates that differ from
	// (0 : z : z) in a single byte only
	for pos := 0; pos < 32; pos++ {
		if !c.Take() {
			continue
		}
		c.Class("neutral/sparse")
		c.Distinct(fmt.Sprintf("sparse %d", pos), true)
		v := int64(1)
		if pos == 31 {
			v = 0x40
		}
		d := new(big.Int).Lsh(big.NewInt(v), uint(8*pos))
		for _, z := range []*big.Int{big.NewInt(1), a0} {
			for which := 0; which < 3; which++ {
				var g Ge25519
				fset(&g.z, z)
				switch which {
				case 0: // X sparse, Y = Z
					fset(&g.x, d)
					fset(&g.y, z)
				case 1: // X = 0, Y = Z + sparse
					fset(&g.x, big.NewInt(0))
					fset(&g.y, new(big.Int).Add(z, d))
				default: // X = 0, Y = Z: the identity (control)
					fset(&g.x, big.NewInt(0))
					fset(&g.y, z)
				}
				got := IsNeutralVartime(&g)
				c.Step(1)
				if got != (which == 2) {
					c.Violation("C09 IsNeutralVartime sparse", fmt.Sprintf("IsNeutralVartime = %v for coordinates differing from the identity's in byte %d only (case %d)", got, pos, which), map[string]interface{}{"byte": pos, "case": which})
				}
			}
		}
	}
	zs := []*big.Int{big.NewInt(1), big.NewInt(2), badd(ref.P, -1), badd(pow2(255), -20), a0, big.NewInt(19), badd(ref.P, -19)}
	var pts []ref.Point
	for i := 0; i < 8; i++ {
		pts = append(pts, ref.Torsion(i))
	}
	for _, k := range []*big.Int{big.NewInt(1), big.NewInt(2), big.NewInt(8), a0, badd(ref.L, -1)} {
		for i := 0; i < 8; i++ {
			pts = append(pts, ref.BaseMul(k).Add(ref.Torsion(i)))
		}
	}
	pts = append(pts, smallXPoints(12)...)
	mkRep := func(p ref.Point, z *big.Int, unreduced int) Ge25519 {
		x, y := p.Affine()
		var g Ge25519
		xz := new(big.Int).Mul(x, z)
		yz := new(big.Int).Mul(y, z)
		tz := new(big.Int).Mul(new(big.Int).Mul(x, y), z)
		switch unreduced {
		case 0:
			fset(&g.x, xz)
			fset(&g.y, yz)
			fset(&g.z, z)
			fset(&g.t, tz)
		case 1:
			// every coordinate as the unreduced sum of two halves
			half := new(big.Int).ModInverse(big.NewInt(2), ref.P)
			var h curve25519.Bignum25519
			for i, v := range []*big.Int{xz, yz, z, tz} {
				fset(&h, new(big.Int).Mul(v, half))
				dst := []*curve25519.Bignum25519{&g.x, &g.y, &g.z, &g.t}[i]
				curve25519.Add(dst, &h, &h)
			}
		default:
			// every coordinate as an unreduced difference (v + 1) - 1, i.e. biased by 2p
			var one, vp curve25519.Bignum25519
			fset(&one, big.NewInt(1))
			for i, v := range []*big.Int{xz, yz, z, tz} {
				fset(&vp, new(big.Int).Add(v, big.NewInt(1)))
				dst := []*curve25519.Bignum25519{&g.x, &g.y, &g.z, &g.t}[i]
				curve25519.Sub(dst, &vp, &one)
			}
		}
		return g
	}
	for pi, p := range pts {
		for zi, z := range zs {
			for u := 0; u < 3; u++ {
				if !c.Take() {
					continue
				}
				c.Distinct(fmt.Sprintf("c09g %d %d %d", pi, zi, u), true)
				g := mkRep(p, z, u)
				want := p.IsIdentity()
				got := IsNeutralVartime(&g)
				c.Step(1)
				if want {
					c.Class("neutral/true")
				} else {
					c.Class("neutral/false")
				}
				if got != want {
					c.Violation(fmt.Sprintf("C09 IsNeutralVartime want=%v", want), fmt.Sprintf("IsNeutralVartime on a representation (Z=%s, unreduced form %d) of %x returned %v", z, u, p.Encode(), got), map[string]interface{}{"point": ref.Hex(p.Encode()), "z": z.String(), "form": u})
				}
				if u != 0 {
					// group operations take points whose coordinates are reduced field elements (every
					// point the library builds is); only the identity test (Contract-based) is
					// demanded on unreduced limbs
					continue
				}
				var q Ge25519
				CofactorMultiply(&q, &g)
				var out [32]byte
				Pack(out[:], &q)
				c.Step(1)
				c.Class("cofactor")
				w8 := p.MulInt(8)
				if !bytes.Equal(out[:], w8.Encode()) || IsNeutralVartime(&q) != w8.IsIdentity() {
					c.Violation("C09 CofactorMultiply", fmt.Sprintf("CofactorMultiply of a representation (Z=%s, form %d) of %x is not [8]P, or its identity test is wrong", z, u, p.Encode()), map[string]interface{}{"point": ref.Hex(p.Encode()), "z": z.String(), "form": u, "observed": ref.Hex(out[:]), "expected": ref.Hex(w8.Encode())})
				}
				// CofactorEqual(P, Q): true iff P - Q is torsion
				other := pts[(pi*7+3)%len(pts)]
				h := mkRep(other, zs[(zi+1)%len(zs)], 0)
				ce := CofactorEqual(&g, &h)
				c.Step(1)
				if ce != p.Sub(other).IsSmallOrder() {
					c.Violation("C09 CofactorEqual", fmt.Sprintf("CofactorEqual(%x, %x) = %v", p.Encode(), other.Encode(), ce), map[string]interface{}{"p": ref.Hex(p.Encode()), "q": ref.Hex(other.Encode())})
				}
			}
		}
	}
}

// sparseCheckStrings: y with num(zeta -+ 1) = v * 2^(8 i) for every byte position i, where
// num = y^2 - 1 (so that y^2 = num + 1 must be a square for y to exist).
func sparseCheckStrings() [][]byte {
	var out [][]byte
	im := ref.SqrtM1
	negIm := new(big.Int).Sub(ref.P, im)
	minus1 := badd(ref.P, -1)
	one := big.NewInt(1)
	var factors []*big.Int
	for _, z := range []*big.Int{im, negIm, minus1, one} {
		for _, d := range []int64{-1, 1} {
			f := new(big.Int).Add(z, big.NewInt(d))
			f.Mod(f, ref.P)
			if f.Sign() != 0 {
				factors = append(factors, f)
			}
		}
	}
	try := func(cval, f *big.Int) bool {
		num := new(big.Int).Mul(cval, new(big.Int).ModInverse(f, ref.P))
		num.Mod(num, ref.P)
		y2 := new(big.Int).Add(num, one)
		y2.Mod(y2, ref.P)
		y := new(big.Int).ModSqrt(y2, ref.P)
		if y == nil {
			return false
		}
		for _, yy := range []*big.Int{y, new(big.Int).Sub(ref.P, y)} {
			for sgn := 0; sgn < 2; sgn++ {
				b := ref.ToLE(new(big.Int).Mod(yy, ref.P), 32)
				b[31] |= byte(sgn) << 7
				out = append(out, b)
			}
		}
		return true
	}
	for pos := 0; pos < 32; pos++ {
		for _, f := range factors {
			for v := int64(1); v < 256; v++ {
				if pos == 31 && v >= 128 {
					break
				}
				if try(new(big.Int).Lsh(big.NewInt(v), uint(8*pos)), f) {
					break
				}
			}
		}
	}
	// two-byte values: the same byte at positions i and i + 4k (they cancel when a zero test folds
	// 32- or 64-bit words with xor instead of or)
	for i := 0; i < 32; i++ {
		for j := i + 4; j < 32; j += 4 {
			for _, f := range factors {
				for v := int64(1); v < 128; v++ {
					cval := new(big.Int).Lsh(big.NewInt(v), uint(8*i))
					cval.Add(cval, new(big.Int).Lsh(big.NewInt(v), uint(8*j)))
					if try(cval, f) {
						break
					}
				}
			}
		}
	}
	// values whose 64-bit (32-bit) words ADD UP to a multiple of 2^64 (2^32): w in one word and 2^W - w in
	// another (they cancel when a zero test folds the words with + instead of |), for three unstructured w
	for _, W := range []uint{64, 32} {
		nw := int(256 / W)
		for a := 0; a < nw; a++ {
			for b := 0; b < nw; b++ {
				if a == b || (W == 32 && (a+b)%3 != 0) {
					continue
				}
				for _, f := range factors {
					for _, w0 := range []int64{0x0102030405, 1, 0x7f3c1d5b} {
						done := false
						for dw := int64(0); dw < 64 && !done; dw++ {
							w := big.NewInt(w0 + dw)
							if W == 32 {
								w.And(w, big.NewInt(0xffffffff))
							}
							cval := new(big.Int).Lsh(w, W*uint(a))
							cval.Add(cval, new(big.Int).Lsh(new(big.Int).Sub(new(big.Int).Lsh(big.NewInt(1), W), w), W*uint(b)))
							if cval.BitLen() > 255 {
								break
							}
							done = try(cval, f)
						}
					}
				}
			}
		}
	}
	return out
}

// atAlign returns a copy of b that starts at address = k (mod 8) inside a larger buffer and keeps
// spare capacity behind it (callers hold keys and strings inside packed records, at any alignment).
var alignCounter int

func atAlign(b []byte) []byte {
	alignCounter++
	off := alignCounter & 7
	buf := make([]byte, len(b)+24)
	for i := range buf {
		buf[i] = 0xA5
	}
	copy(buf[off:], b)
	return buf[off : off+len(b)]
}

// dirty returns a valid point in non-normalised coordinates (Z != 1): what an output variable or a
// reused slot holds after an earlier operation.
func dirty() Ge25519 {
	var g Ge25519
	junk := ref.BaseMul(big.NewInt(987654321)).Encode()
	UnpackVartime(&g, junk)
	Double(&g, &g)
	return g
}
