package ge25519

import (
	"crypto/sha256"
	"fmt"
	"math/big"

	"github.com/oasisprotocol/ed25519/internal/modm"
	ref "github.com/oasisprotocol/ed25519/internal/zzverifref"
	rt "github.com/oasisprotocol/ed25519/internal/zzverifrt"
)

func init() { rt.Register("C08g", jobC08g) }

// jobC08g: layout-independent transcript of the group layer: decoding of byte strings, fixed-base
// multiplication of byte-specified scalars, double-base multiplication of byte-specified inputs.
func jobC08g(c *rt.Ctx) {
	c.Require("decode", "fixed", "double")
	emit := func(class string, desc func() map[string]interface{}, parts ...[]byte) {
		h := sha256.New()
		for _, p := range parts {
			h.Write([]byte{byte(len(p))})
			h.Write(p)
		}
		c.Step(1)
		c.Class(class)
		c.Distinct(fmt.Sprintf("%s %d", class, c.Index()), true)
		c.Transcript(h.Sum(nil), desc)
		if c.WantSample() {
			s := desc()
			s["class"] = class
			c.Sample(s)
		}
	}
	lim := 1 << 12
	if c.Thorough() {
		lim = 1 << 15
	}
	for y := 0; y < lim; y++ {
		if !c.Take() {
			continue
		}
		h := sha256.New()
		for s := 0; s < 2; s++ {
			for hiy := 0; hiy < 2; hiy++ {
				b := make([]byte, 32)
				b[0], b[1] = byte(y), byte(y>>8)
				if hiy == 1 {
					// the 2^12 (2^15) largest 255-bit y, incl. every y >= p
					b = ref.ToLE(badd(pow2(255), -int64(y+1)), 32)
				}
				b[31] |= byte(s) << 7
				var P Ge25519
				ok := UnpackVartime(&P, b)
				var o [32]byte
				if ok {
					Pack(o[:], &P)
				}
				h.Write([]byte{byte(s), byte(hiy)})
				if ok {
					h.Write([]byte{1})
				} else {
					h.Write([]byte{0})
				}
				h.Write(o[:])
			}
		}
		yy := y
		emit("decode", func() map[string]interface{} { return map[string]interface{}{"y": yy} }, h.Sum(nil))
	}
	for _, s := range nibScalars(c.Thorough()) {
		if !c.Take() {
			continue
		}
		var sc modm.Bignum256
		var r Ge25519
		var o1, o2 [32]byte
		modm.Expand(&sc, s)
		ScalarmultBaseNiels(&r, &NielsBaseMultiples, &sc)
		Pack(o1[:], &r)
		cl := append([]byte{}, s...)
		cl[0] &= 248
		cl[31] &= 127
		cl[31] |= 64
		modm.ExpandRaw(&sc, cl)
		ScalarmultBaseNiels(&r, &NielsBaseMultiples, &sc)
		Pack(o2[:], &r)
		ss := s
		emit("fixed", func() map[string]interface{} {
			return map[string]interface{}{"scalar": ref.Hex(ss), "sB": ref.Hex(o1[:])}
		}, o1[:], o2[:])
	}
	pts := [][]byte{ref.Base().Encode(), ref.Public(make([]byte, 32)), ref.Torsion(1).Encode(), ref.Torsion(4).Encode(), ref.BaseMul(a0).Add(ref.Torsion(7)).Encode()}
	var scal []*big.Int
	for d := int64(1); d < 128; d += 2 {
		for i := uint(0); i <= 252; i += 9 {
			x := new(big.Int).Lsh(big.NewInt(d), i)
			if x.Cmp(ref.L) < 0 {
				scal = append(scal, x)
			}
		}
	}
	scal = append(scal, big.NewInt(0), big.NewInt(1), badd(ref.L, -1), pow2(252), a0)
	for pi, pb := range pts {
		for si, s1 := range scal {
			if !c.Take() {
				continue
			}
			var P, r, full Ge25519
			UnpackNegativeVartime(&P, pb)
			s2 := scal[(si*7+pi)%len(scal)]
			var m1, m2 modm.Bignum256
			modm.Expand(&m1, ref.ToLE(s1, 32))
			modm.Expand(&m2, ref.ToLE(s2, 32))
			DoubleScalarmultVartime(&r, &P, &m1, &m2)
			ProjectiveToExtended(&full, &r)
			var o [32]byte
			Pack(o[:], &full)
			emit("double", func() map[string]interface{} {
				return map[string]interface{}{"P": ref.Hex(pb), "s1": s1.String(), "s2": s2.String(), "out": ref.Hex(o[:])}
			}, o[:])
		}
	}
}
