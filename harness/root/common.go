package ed25519

// Common helpers of the in-package harness (package ed25519). Language level: go1.12
// (no generics, unsigned shift counts only).

import (
	"bytes"
	"crypto"
	"crypto/sha512"
	"fmt"
	"math/big"
	"testing"

	ref "github.com/oasisprotocol/ed25519/internal/zzverifref"
	rt "github.com/oasisprotocol/ed25519/internal/zzverifrt"
)

// TestVerif is the worker entry point.
func TestVerif(t *testing.T) {
	ran, err := rt.Main()
	if err != nil {
		t.Fatal(err)
	}
	if !ran {
		t.Skip("no VERIF_JOB")
	}
}

type variantSpec struct {
	v   ref.Variant
	ctx string
}

func (vs variantSpec) String() string { return fmt.Sprintf("%s/%q", vs.v, vs.ctx) }

func (vs variantSpec) opts(zip bool) *Options {
	o := &Options{Context: vs.ctx, ZIP215Verify: zip}
	if vs.v == ref.Ph {
		o.Hash = crypto.SHA512
	}
	return o
}

var (
	vPure = variantSpec{ref.Pure, ""}
	vCtx  = variantSpec{ref.Ctx, "c"}
	vPh   = variantSpec{ref.Ph, ""}
	vAll  = []variantSpec{vPure, vCtx, vPh}
)

func bi(s string) *big.Int {
	x, ok := new(big.Int).SetString(s, 0)
	if !ok {
		panic("bad int " + s)
	}
	return x
}

func pow2(n uint) *big.Int { return new(big.Int).Lsh(big.NewInt(1), n) }
func badd(a *big.Int, k int64) *big.Int {
	return new(big.Int).Add(a, big.NewInt(k))
}
func bmulL(k int64) *big.Int { return new(big.Int).Mul(ref.L, big.NewInt(k)) }

func seedOf(i int) []byte {
	s := make([]byte, 32)
	if i < -1 {
		h := sha512.Sum512([]byte(fmt.Sprintf("verif seed %d", -i)))
		copy(s, h[:32])
		return s
	}
	if i < 0 {
		for j := range s {
			s[j] = 0xff
		}
		return s
	}
	s[0], s[1], s[2], s[3] = byte(i), byte(i>>8), byte(i>>16), byte(i>>24)
	return s
}

// msgOf returns the i-th member of the message alphabet; for ph always a 64-byte digest.
func msgOf(i int, vs variantSpec) []byte {
	if vs.v == ref.Ph {
		m := make([]byte, 64)
		for j := range m {
			m[j] = byte(i*31 + j)
		}
		return m
	}
	switch i % 4 {
	case 0:
		return []byte{}
	case 1:
		return []byte("a")
	case 2:
		m := make([]byte, 64)
		for j := range m {
			m[j] = byte(j + 1)
		}
		return m
	default:
		m := make([]byte, 200)
		for j := range m {
			m[j] = byte(7*j + 3)
		}
		return m
	}
}

// secret scalars of two fixed seeds
var (
	a0, a1 *big.Int
	ptMemo = map[string]ref.Point{}
)

func init() {
	a0, _ = ref.ExpandSeed(seedOf(0))
	a1, _ = ref.ExpandSeed(seedOf(1))
}

// ptOf returns [k]B + T_ti (memoised).
func ptOf(k *big.Int, ti int) ref.Point {
	key := k.String() + "|" + fmt.Sprint(ti)
	if p, ok := ptMemo[key]; ok {
		return p
	}
	p := ref.BaseMul(k).Add(ref.Torsion(ti))
	ptMemo[key] = p
	return p
}

// scalarAlphabet K = {1, 2, a0, a1, L-1} (quick: {1, a0}).
func alphaK(thorough bool) []*big.Int {
	if thorough {
		return []*big.Int{big.NewInt(1), big.NewInt(2), a0, a1, badd(ref.L, -1)}
	}
	return []*big.Int{big.NewInt(1), a0}
}

// alphaSB is the scalar boundary alphabet of DESIGN 4 (values < 2^256).
func alphaSB() []*big.Int {
	var out []*big.Int
	addv := func(x *big.Int) {
		if x.Sign() < 0 || x.BitLen() > 256 {
			return
		}
		for _, y := range out {
			if y.Cmp(x) == 0 {
				return
			}
		}
		out = append(out, x)
	}
	L := ref.L
	for _, x := range []*big.Int{
		big.NewInt(0), big.NewInt(1), big.NewInt(2), pow2(128), badd(pow2(252), -1), pow2(252), badd(pow2(252), 1),
		badd(L, -2), badd(L, -1), L, badd(L, 1), badd(bmulL(2), -1), bmulL(2), badd(pow2(253), -1), pow2(253),
		pow2(254), badd(pow2(255), -1), pow2(255), bmulL(15), badd(pow2(256), -1),
		badd(bmulL(8), 0), badd(bmulL(8), 1), badd(L, -1000),
	} {
		addv(x)
	}
	// word classes around the words of L, one word deviating from L's own words at a time
	ow := [4]uint64{0x5812631a5cf5d3ed, 0x14def9dea2f79cd6, 0, 0x1000000000000000}
	for w := 0; w < 4; w++ {
		for _, v := range []uint64{0, 1, ow[w] - 1, ow[w], ow[w] + 1, 1 << 63, ^uint64(0)} {
			ws := ow
			ws[w] = v
			x := new(big.Int)
			for i := 3; i >= 0; i-- {
				x.Lsh(x, 64)
				x.Or(x, new(big.Int).SetUint64(ws[i]))
			}
			addv(x)
		}
	}
	return out
}

type triple struct {
	key, msg, sig []byte
}

// mkTriple builds a triple that satisfies the cofactored equation by construction (DESIGN 3.2):
// A = [a]B + T_ti in its ea-th encoding, R = [r]B + T_tj in its er-th encoding.
func mkTriple(a *big.Int, ti, ea int, r *big.Int, tj, er int, msg []byte, vs variantSpec) triple {
	A := ptOf(a, ti)
	R := ptOf(r, tj)
	encA := ref.Encodings(A)
	encR := ref.Encodings(R)
	EA := encA[ea%len(encA)]
	ER := encR[er%len(encR)]
	h := ref.HashModL(ref.Dom2(vs.v, []byte(vs.ctx)), ER, EA, msg)
	S := new(big.Int).Mul(h, a)
	S.Add(S, r)
	S.Mod(S, ref.L)
	sig := append(append([]byte{}, ER...), ref.ToLE(S, 32)...)
	return triple{append([]byte{}, EA...), msg, sig}
}

// libTriple signs with the implementation (used where the library's own signer is the subject:
// C02, C03, the literal half of C07).
func libTriple(seedIdx int, msg []byte, vs variantSpec) triple {
	k := NewKeyFromSeed(seedOf(seedIdx))
	sig, err := k.Sign(nil, msg, vs.opts(false))
	if err != nil {
		panic(rt.Refused{What: fmt.Sprintf("Sign under variant %v with a %d-byte context", vs.v, len(vs.ctx)), Err: err})
	}
	return triple{append([]byte{}, k[32:]...), msg, sig}
}

// honestTriple is an honest RFC 8032 triple made by the MODEL's signer (memoised): the inputs of
// the verification checks do not depend on the library's signer, so a signing defect cannot
// disturb them (it is C02 / C03's to report).
func honestTriple(seedIdx int, msg []byte, vs variantSpec) triple {
	t := modelTriple(seedIdx, msg, vs)
	return triple{append([]byte{}, t.key...), append([]byte{}, t.msg...), append([]byte{}, t.sig...)}
}

// model verdict, memoised on the bytes.
var verdictMemo = map[string]struct {
	ok bool
	c  ref.Cause
}{}

func modelVerify(t triple, vs variantSpec, zip bool) (bool, ref.Cause) {
	mk := t.msg
	if len(mk) > 256 {
		d := sha512.Sum512(mk) // long messages enter the memo key through a digest
		mk = append([]byte("#"), d[:]...)
	}
	k := fmt.Sprintf("%x|%x|%x|%d|%s|%v", t.key, mk, t.sig, vs.v, vs.ctx, zip)
	if m, ok := verdictMemo[k]; ok {
		return m.ok, m.c
	}
	ok, c := ref.Verify(t.key, t.msg, t.sig, vs.v, []byte(vs.ctx), zip)
	if len(verdictMemo) < 200000 {
		verdictMemo[k] = struct {
			ok bool
			c  ref.Cause
		}{ok, c}
	}
	return ok, c
}

// modHook, when set (C13 only), is told about any API call that changed a caller-supplied slice.
var modHook func(api, which string, before, after []byte)

func snap(t triple) triple {
	cp := func(b []byte) []byte {
		if b == nil {
			return nil
		}
		return append([]byte{}, b...)
	}
	return triple{cp(t.key), cp(t.msg), cp(t.sig)}
}

func checkIntact(api string, before, after triple) {
	if modHook == nil {
		return
	}
	if !bytes.Equal(before.key, after.key) {
		modHook(api, "key", before.key, after.key)
	}
	if !bytes.Equal(before.msg, after.msg) {
		modHook(api, "message", before.msg, after.msg)
	}
	if !bytes.Equal(before.sig, after.sig) {
		modHook(api, "signature", before.sig, after.sig)
	}
}

// implSingle runs the single-signature verifier, reporting a panic instead of propagating it.
func implSingle(t triple, vs variantSpec, zip bool) (ok bool, panicked interface{}) {
	if modHook != nil {
		b := snap(t)
		defer func() { checkIntact("Verify", b, t) }()
	}
	defer func() {
		if r := recover(); r != nil {
			ok, panicked = false, r
		}
	}()
	key, msg, sig, damage := layoutSingle(t)
	defer func() {
		if d := damage(); d != "" && panicked == nil {
			ok, panicked = false, "verification modified caller memory: "+d
		}
	}()
	if vs.v == ref.Pure && !zip {
		return Verify(key, msg, sig), nil
	}
	return VerifyWithOptions(key, msg, sig, vs.opts(zip)), nil
}

// layoutSingle: in two calls out of three (decided by the triple) key, signature and message are
// consecutive slices of one record buffer (key || sig || msg || guard), each with spare capacity
// that is the next field; damage() reports any change to that buffer. nil arguments stay nil.
func layoutSingle(t triple) (key, msg, sig []byte, damage func() string) {
	sel := len(t.msg)
	if len(t.sig) > 5 {
		sel += int(t.sig[5])
	}
	if sel%3 == 0 {
		return t.key, t.msg, t.sig, func() string { return "" }
	}
	pad := (sel / 3) & 7 // the record starts at every alignment over the calls
	buf := make([]byte, pad+len(t.key)+len(t.sig)+len(t.msg)+16)
	for i := 0; i < pad; i++ {
		buf[i] = 0xA5
	}
	off := pad
	put := func(b []byte) []byte {
		if b == nil {
			return nil
		}
		copy(buf[off:], b)
		out := buf[off : off+len(b)]
		off += len(b)
		return out
	}
	key, sig, msg = put(t.key), put(t.sig), put(t.msg)
	for i := off; i < len(buf); i++ {
		buf[i] = 0xA5
	}
	keep := append([]byte{}, buf...)
	return key, msg, sig, func() string {
		if !bytes.Equal(buf, keep) {
			return "the record buffer holding key || signature || message changed"
		}
		return ""
	}
}

// implSingleOpts always goes through VerifyWithOptions.
func implSingleOpts(t triple, vs variantSpec, zip bool) (ok bool, panicked interface{}) {
	if modHook != nil {
		b := snap(t)
		defer func() { checkIntact("VerifyWithOptions", b, t) }()
	}
	defer func() {
		if r := recover(); r != nil {
			ok, panicked = false, r
		}
	}()
	key, msg, sig, damage := layoutSingle(t)
	defer func() {
		if d := damage(); d != "" && panicked == nil {
			ok, panicked = false, "verification modified caller memory: "+d
		}
	}()
	return VerifyWithOptions(key, msg, sig, vs.opts(zip)), nil
}

// implBatch runs VerifyBatch under recover.
func implBatch(entries []triple, vs variantSpec, zip bool, rnd *rt.Rng) (all bool, valid []bool, err error, panicked interface{}) {
	if modHook != nil {
		bs := make([]triple, len(entries))
		for i, e := range entries {
			bs[i] = snap(e)
		}
		defer func() {
			for i := range entries {
				checkIntact("VerifyBatch", bs[i], entries[i])
			}
		}()
	}
	defer func() {
		if r := recover(); r != nil {
			panicked = r
		}
	}()
	pubs, msgs, sigs, damage := layoutBatch(entries)
	all, valid, err = VerifyBatch(rnd, pubs, msgs, sigs, vs.opts(zip))
	if d := damage(); d != "" && panicked == nil {
		panicked = "VerifyBatch modified caller memory: " + d
	}
	valid = ownResult(valid)
	return
}

// layoutBatch hands the entries to VerifyBatch the way callers hold them. In two calls out of three
// (decided by the batch itself, so every run is the same) the keys are slices of ONE contiguous
// buffer, likewise the messages and the signatures: every slice then has spare capacity that is
// the next entry (an append onto an argument writes there). damage() reports any byte of those
// buffers, guard bytes included, that changed. nil entries stay nil.
func layoutBatch(entries []triple) (pubs []PublicKey, msgs, sigs [][]byte, damage func() string) {
	n := len(entries)
	pubs = make([]PublicKey, n)
	msgs = make([][]byte, n)
	sigs = make([][]byte, n)
	sel := n
	if n > 0 && len(entries[0].sig) > 3 {
		sel += int(entries[0].sig[3])
	}
	if sel%3 == 0 {
		for i, e := range entries {
			pubs[i], msgs[i], sigs[i] = e.key, e.msg, e.sig
		}
		return pubs, msgs, sigs, func() string { return "" }
	}
	pack := func(get func(i int) []byte, set func(i int, b []byte)) (buf, keep []byte) {
		total := 16
		for i := 0; i < n; i++ {
			total += len(get(i))
		}
		pad := (sel + total) & 7 // the first entry starts at every alignment over the calls
		total += pad
		buf = make([]byte, total)
		off := pad
		for i := 0; i < pad; i++ {
			buf[i] = 0xA5
		}
		for i := 0; i < n; i++ {
			b := get(i)
			if b == nil {
				continue
			}
			copy(buf[off:], b)
			set(i, buf[off:off+len(b)])
			off += len(b)
		}
		for ; off < total; off++ {
			buf[off] = 0xA5
		}
		return buf, append([]byte{}, buf...)
	}
	kb, kk := pack(func(i int) []byte { return entries[i].key }, func(i int, b []byte) { pubs[i] = b })
	mb, mk := pack(func(i int) []byte { return entries[i].msg }, func(i int, b []byte) { msgs[i] = b })
	sb, sk := pack(func(i int) []byte { return entries[i].sig }, func(i int, b []byte) { sigs[i] = b })
	return pubs, msgs, sigs, func() string {
		switch {
		case !bytes.Equal(kb, kk):
			return "the buffer holding the public keys changed"
		case !bytes.Equal(mb, mk):
			return "the buffer holding the messages changed"
		case !bytes.Equal(sb, sk):
			return "the buffer holding the signatures changed"
		}
		return ""
	}
}

// filler pool: honest triples per variant, distinct seeds and messages.
var fillerMemo = map[string][]triple{}

func fillers(vs variantSpec, n int) []triple {
	k := vs.String()
	cur := fillerMemo[k]
	for len(cur) < n {
		i := len(cur)
		cur = append(cur, honestTriple(1000+i, msgOf(i, vs), vs))
	}
	fillerMemo[k] = cur
	return cur[:n]
}

// batchWith places t at position pos of a batch of size n filled with honest triples.
// shortFillers: the neighbours of the entry under test carry one-byte messages (set by families that
// vary the message length: a neighbour of a length that the same defect gets wrong would send the chunk
// to the fallback and hide the entry under test).
var shortFillers bool

func batchWith(t triple, pos, n int, vs variantSpec) []triple {
	f := fillers(vs, n)
	if shortFillers && vs.v != ref.Ph {
		f = make([]triple, n)
		for i := range f {
			f[i] = honestTriple(5100+i%16, []byte{byte(i)}, vs)
		}
	}
	out := make([]triple, n)
	copy(out, f)
	out[pos] = t
	return out
}

func hexd(t triple) map[string]interface{} {
	return map[string]interface{}{"key": ref.Hex(t.key), "msg": ref.Hex(t.msg), "sig": ref.Hex(t.sig)}
}

func sClass(S *big.Int) string {
	switch {
	case S.Cmp(pow2(252)) < 0:
		return "S<2^252"
	case S.Cmp(ref.L) < 0:
		return "2^252<=S<L"
	case S.BitLen() <= 253:
		return "L<=S<2^253"
	default:
		return "S>=2^253"
	}
}

func boolStr(b bool) string {
	if b {
		return "accept"
	}
	return "reject"
}

// ownResult: the result vector is the caller's memory. The harness keeps a copy and overwrites the
// returned slice up to its capacity, as a caller post-processing its results in place would; a
// vector that the library shares between calls then spoils a later call.
func ownResult(valid []bool) []bool {
	if valid == nil {
		return nil
	}
	out := append([]bool{}, valid...)
	full := valid[:cap(valid)]
	for i := range full {
		full[i] = false
	}
	return out
}

func minI(a, b int) int {
	if a < b {
		return a
	}
	return b
}

// crossTriple builds the entry (key, declared, R || S) whose signature satisfies the equation IF the
// verifier took the POINT [a]B for the key while hashing the bytes `key`, and hashed the message
// `hashed` instead of `declared`: S = r + H(dom2 || R || key || hashed) * a, R = [r]B. With a, key,
// hashed taken from a neighbouring entry or an earlier call it is the witness of a mixed-up reading
// (a component of entry i read from entry j in one of its two uses); the model decides what the right
// verdict is (false unless the pieces happen to belong together).
func crossTriple(a *big.Int, key, hashed, declared []byte, rSeed int64, vs variantSpec) triple {
	r := new(big.Int).Add(new(big.Int).Lsh(big.NewInt(rSeed+3), 200), big.NewInt(rSeed*7919+11))
	r.Mod(r, ref.L)
	R := ref.BaseMul(r).Encode()
	h := ref.HashModL(ref.Dom2(vs.v, []byte(vs.ctx)), R, key, hashed)
	S := new(big.Int).Mul(h, a)
	S.Add(S, r)
	S.Mod(S, ref.L)
	return triple{append([]byte{}, key...), append([]byte{}, declared...), append(append([]byte{}, R...), ref.ToLE(S, 32)...)}
}

// heldResults: the caller keeps n results of successive calls, then uses each in turn as its own buffer
// (append beyond the length, overwrite the spare capacity) and re-reads all the others: results carved
// out of one shared block, or backed by library state, run into each other. Returns the indices
// (changed, appendedTo) of the first damage, or (-1, -1).
func heldResults(got, want [][]byte) (int, int) {
	for i := range got {
		_ = append(got[i], bytes.Repeat([]byte{0xEE}, 72)...)
		full := got[i][:cap(got[i])]
		for j := len(got[i]); j < len(full); j++ {
			full[j] = 0xDD
		}
		for j := range got {
			if !bytes.Equal(got[j], want[j]) {
				return j, i
			}
		}
	}
	return -1, -1
}
