package ed25519

import (
	"bytes"
	"fmt"
	"math/big"
	"os"
	"strings"

	ref "github.com/oasisprotocol/ed25519/internal/zzverifref"
	rt "github.com/oasisprotocol/ed25519/internal/zzverifrt"
)

func init() {
	rt.Register("C01", func(c *rt.Ctx) { jobTriples(c, "C01", false) })
	rt.Register("C05", func(c *rt.Ctx) { jobTriples(c, "C05", true) })
}

// replacement strings: the 14 torsion encodings, every y >= p with either sign, x = 0 sign
// flips, and undecodable strings.
type replStr struct {
	b       []byte
	torsion bool
	name    string
}

func replacementStrings() []replStr {
	var out []replStr
	seen := map[string]bool{}
	add := func(b []byte, name string) {
		if seen[string(b)] {
			return
		}
		seen[string(b)] = true
		p, ok := ref.Decode(b)
		out = append(out, replStr{b, ok && p.IsSmallOrder(), name})
	}
	for i := 0; i < 8; i++ {
		for j, e := range ref.Encodings(ref.Torsion(i)) {
			add(e, fmt.Sprintf("torsion%d/enc%d", i, j))
		}
	}
	for y := int64(0); y < 19; y++ {
		for s := 0; s < 2; s++ {
			b := ref.ToLE(new(big.Int).Add(ref.P, big.NewInt(y)), 32)
			b[31] |= byte(s) << 7
			add(b, fmt.Sprintf("y=p+%d/sign%d", y, s))
		}
	}
	// undecodable: first 4 non-square small y, first 2 below p
	n := 0
	for y := int64(2); n < 4; y++ {
		b := ref.ToLE(big.NewInt(y), 32)
		if _, ok := ref.Decode(b); !ok {
			add(b, fmt.Sprintf("undecodable y=%d", y))
			b2 := append([]byte{}, b...)
			b2[31] |= 0x80
			add(b2, fmt.Sprintf("undecodable y=%d/sign1", y))
			n++
		}
	}
	n = 0
	for d := int64(2); n < 2; d++ {
		b := ref.ToLE(new(big.Int).Sub(ref.P, big.NewInt(d)), 32)
		if _, ok := ref.Decode(b); !ok {
			add(b, fmt.Sprintf("undecodable y=p-%d", d))
			n++
		}
	}
	return out
}

var spertNames = []string{"exact", "+L", "+2L", "+8L", "-1", "+1", "|0x20<<248", "|0x40<<248", "|0x80<<248", "=0", "=L-1", "flip0", "flip252"}

func applySpert(S *big.Int, k int) *big.Int {
	x := new(big.Int).Set(S)
	switch k {
	case 1:
		x.Add(x, ref.L)
	case 2:
		x.Add(x, bmulL(2))
	case 3:
		x.Add(x, bmulL(8))
	case 4:
		x.Sub(x, big.NewInt(1))
		if x.Sign() < 0 {
			x.Add(x, pow2(256))
		}
	case 5:
		x.Add(x, big.NewInt(1))
	case 6:
		x.SetBit(x, 253, 1)
	case 7:
		x.SetBit(x, 254, 1)
	case 8:
		x.SetBit(x, 255, 1)
	case 9:
		x.SetInt64(0)
	case 10:
		x.Sub(ref.L, big.NewInt(1))
	case 11:
		x.SetBit(x, 0, x.Bit(0)^1)
	case 12:
		x.SetBit(x, 252, x.Bit(252)^1)
	}
	if x.BitLen() > 256 {
		x.Mod(x, pow2(256))
	}
	return x
}

var sigLens = []int{64, 0, 1, 32, 63, 65, 128}

type tripleSpace struct {
	ka, kr []*big.Int
	repl   []replStr
	nmsg   int
	sizes  []int
	names  []string
}

func newTripleSpace(thorough bool) *tripleSpace {
	sp := &tripleSpace{}
	if thorough {
		sp.ka = []*big.Int{a0, big.NewInt(1), big.NewInt(0), big.NewInt(2), a1, badd(ref.L, -1)}
		sp.kr = []*big.Int{big.NewInt(5), big.NewInt(1), big.NewInt(0), a1, badd(ref.L, -1), big.NewInt(2)}
		sp.nmsg = 4
	} else {
		sp.ka = []*big.Int{a0, big.NewInt(1), big.NewInt(0)}
		sp.kr = []*big.Int{big.NewInt(5), big.NewInt(1), big.NewInt(0)}
		sp.nmsg = 2
	}
	sp.repl = replacementStrings()
	// Rrel: the R bytes of the signature encode a point RELATED to the one the equation yields:
	// 1 = (-x, y) (the negation), 2 = (x, -y) (negation + the order-2 point). Both must be rejected
	// (a projective comparison that looks at one coordinate only would accept one of them);
	// (-x, -y) differs by pure torsion and is legitimately accepted, so it is not a deviation.
	sp.names = []string{"variant", "keyscalar", "keytorsion", "keyenc", "nonce", "Rtorsion", "Renc", "msg", "Spert", "siglen", "keyrepl", "Rrepl", "Rrel"}
	sp.sizes = []int{len(vSpace), len(sp.ka), 8, 4, len(sp.kr), 8, 4, sp.nmsg, len(spertNames), len(sigLens), 1 + len(sp.repl), 1 + len(sp.repl), 3}
	return sp
}

// build returns the triple for vector v; ok = false if the vector is redundant (encoding index
// beyond the number of encodings of the point).
// variant alphabet of the triple space: pure, ctx "c", ph "", and the maximum-length contexts
// ... and ph under the SAME context string as the ctx member (the two must stay separated by the flag
// byte alone, whichever of them the process saw first)
// The two 255-byte contexts consist of formatting verbs: context bytes are never interpreted.
var vSpace = []variantSpec{vPure, vCtx, vPh, {ref.Ctx, strings.Repeat("%d", 127) + "x"}, {ref.Ph, strings.Repeat("%v", 127) + "y"}, {ref.Ph, "c"}}

func (sp *tripleSpace) build(v []int) (t triple, vs variantSpec, ok bool) {
	vs = vSpace[v[0]]
	a, r := sp.ka[v[1]], sp.kr[v[4]]
	var EA, ER []byte
	aEff, rEff := a, r
	if v[10] > 0 {
		rs := sp.repl[v[10]-1]
		EA = rs.b
		aEff = big.NewInt(0) // torsion: [h]A killed by the cofactor; otherwise the equation will not hold anyway
		if v[1] != 0 || v[2] != 0 || v[3] != 0 {
			return t, vs, false // replaced key: scalar/torsion/encoding dims are irrelevant
		}
	} else {
		enc := ref.Encodings(ptOf(a, v[2]))
		if v[3] >= len(enc) {
			return t, vs, false
		}
		EA = enc[v[3]]
	}
	if v[11] > 0 {
		rs := sp.repl[v[11]-1]
		ER = rs.b
		rEff = big.NewInt(0)
		if v[4] != 0 || v[5] != 0 || v[6] != 0 || v[12] != 0 {
			return t, vs, false
		}
	} else {
		if v[12] > 0 && v[6] != 0 {
			return t, vs, false
		}
		enc := ref.Encodings(ptOf(r, v[5]))
		if v[6] >= len(enc) {
			return t, vs, false
		}
		ER = enc[v[6]]
		if v[12] > 0 {
			// S below is computed for the point P = [r]B + T_j; the signature carries a related point
			x, y := ptOf(r, v[5]).Affine()
			if v[12] == 1 {
				x = new(big.Int).Mod(new(big.Int).Neg(x), ref.P)
			} else {
				y = new(big.Int).Mod(new(big.Int).Neg(y), ref.P)
			}
			ER = ref.FromAffine(x, y).Encode()
		}
	}
	msg := msgOf(v[7]+1, vs)
	h := ref.HashModL(ref.Dom2(vs.v, []byte(vs.ctx)), ER, EA, msg)
	S := new(big.Int).Mul(h, aEff)
	S.Add(S, rEff)
	S.Mod(S, ref.L)
	S = applySpert(S, v[8])
	sig := append(append([]byte{}, ER...), ref.ToLE(S, 32)...)
	n := sigLens[v[9]]
	if n <= 64 {
		sig = sig[:n]
	} else {
		sig = append(sig, make([]byte, n-64)...)
	}
	return triple{append([]byte{}, EA...), msg, sig}, vs, true
}

var encCountMemo = map[string]int{}

func encCount(k *big.Int, ti int) int {
	key := k.String() + "|" + fmt.Sprint(ti)
	if n, ok := encCountMemo[key]; ok {
		return n
	}
	n := len(ref.Encodings(ptOf(k, ti)))
	encCountMemo[key] = n
	return n
}

// valid is the cheap redundancy filter (same decision as build's ok).
func (sp *tripleSpace) valid(v []int) bool {
	if v[10] > 0 {
		if v[1] != 0 || v[2] != 0 || v[3] != 0 {
			return false
		}
	} else if v[3] >= encCount(sp.ka[v[1]], v[2]) {
		return false
	}
	if v[11] > 0 {
		if v[4] != 0 || v[5] != 0 || v[6] != 0 || v[12] != 0 {
			return false
		}
	} else if v[6] >= encCount(sp.kr[v[4]], v[5]) {
		return false
	}
	if v[12] > 0 && v[6] != 0 {
		return false
	}
	return true
}

func (sp *tripleSpace) devNames(v []int) string {
	var d []string
	for i, x := range v {
		if x != 0 {
			d = append(d, sp.names[i])
		}
	}
	if len(d) == 0 {
		return "none"
	}
	return strings.Join(d, "+")
}

func smallOrderBytes(b []byte) bool {
	p, ok := ref.Decode(b)
	return ok && p.IsSmallOrder()
}

// compareTriple runs the implementation (single; optionally batches) and compares with the model.
func compareTriple(c *rt.Ctx, prop string, t triple, vs variantSpec, zip bool, dev string, shapes []batchShape) {
	exp, cause := modelVerify(t, vs, zip)
	c.Class(string(cause))
	mode := "default"
	if zip {
		mode = "zip215"
	}
	report := func(api string, got bool, pv interface{}) {
		d := hexd(t)
		d["variant"], d["mode"], d["api"], d["expected"], d["observed"], d["cause"], d["panic"], d["deviations"] = vs.String(), mode, api, exp, got, string(cause), fmt.Sprint(pv), dev
		c.Violation(fmt.Sprintf("%s %s exp=%s(%s) got=%s dev=%s", prop, api, boolStr(exp), cause, boolStr(got), dev),
			fmt.Sprintf("%s (%s, %s) returned %v (panic=%v); model: %v (%s)", api, mode, vs, got, pv, exp, cause), d)
	}
	got, pv := implSingleOpts(t, vs, zip)
	c.Step(1)
	if pv != nil || got != exp {
		report("VerifyWithOptions", got, pv)
	}
	if vs.v == ref.Pure && !zip {
		g2, pv2 := implSingle(t, vs, zip)
		c.Step(1)
		if pv2 != nil || g2 != exp {
			report("Verify", g2, pv2)
		}
	}
	if prop == "C05" || zip {
		// relations between the two modes, on the implementation's own verdicts
		gd, _ := implSingleOpts(t, vs, false)
		gz, _ := implSingleOpts(t, vs, true)
		c.Step(2)
		if gd && !gz {
			d := hexd(t)
			d["variant"] = vs.String()
			c.Violation(prop+" relation default-accept-implies-zip215-accept dev="+dev, "accepted in default mode but rejected in ZIP-215 mode", d)
		}
		if gd != gz && len(t.sig) == 64 && !smallOrderBytes(t.key) && !smallOrderBytes(t.sig[:32]) {
			d := hexd(t)
			d["variant"] = vs.String()
			c.Violation(prop+" relation modes-differ-only-on-small-order dev="+dev, "default and ZIP-215 verdicts differ although neither key nor R has small order", d)
		}
		if gd != gz {
			c.Class("modes-differ")
		}
	}
	type brun struct {
		sh  batchShape
		zip bool
	}
	var bruns []brun
	for _, sh := range shapes {
		bruns = append(bruns, brun{sh, zip})
		if prop == "C05" && zip {
			// the same heterogeneous batch in default mode: the honest neighbours stay accepted and the
			// entry gets the default-mode verdict (the modes differ on this entry only)
			bruns = append(bruns, brun{sh, false})
		}
	}
	for _, br := range bruns {
		sh, zip := br.sh, br.zip
		exp, cause := modelVerify(t, vs, zip)
		mode := "default"
		if zip {
			mode = "zip215"
		}
		entries := batchWith(t, sh.pos, sh.n, vs)
		rnd := rt.NewRng(c.Seed, fmt.Sprintf("%s-%d-%d", prop, sh.pos, sh.n))
		all, valid, err, bpv := implBatch(entries, vs, zip, rnd)
		c.Step(1)
		good := bpv == nil && err == nil && len(valid) == sh.n
		if good {
			and := true
			for i, x := range valid {
				want := true
				if i == sh.pos {
					want = exp
				}
				if x != want {
					good = false
				}
				and = and && x
			}
			good = good && all == and
		}
		if !good {
			d := hexd(t)
			d["variant"], d["mode"], d["expected"], d["valid"], d["all"], d["err"], d["panic"], d["pos"], d["n"] = vs.String(), mode, exp, fmt.Sprint(valid), all, fmt.Sprint(err), fmt.Sprint(bpv), sh.pos, sh.n
			c.Violation(fmt.Sprintf("%s VerifyBatch exp=%s(%s) dev=%s", prop, boolStr(exp), cause, dev),
				fmt.Sprintf("VerifyBatch (%s, %s, position %d of %d) reported %v all=%v err=%v; model: entry %v (%s)", mode, vs, sh.pos, sh.n, valid, all, err, exp, cause), d)
		}
	}
}

func jobTriples(c *rt.Ctx, prop string, zip bool) {
	sp := newTripleSpace(c.Thorough())
	bound := 3
	if c.Thorough() {
		bound = 5
	}
	if b := os.Getenv("VERIF_BOUND"); b != "" {
		fmt.Sscan(b, &bound)
	}
	c.Require(string(ref.Accept), string(ref.BadLen), string(ref.SNotMinimal), string(ref.AUndecodable), string(ref.RUndecodable), string(ref.Equation), "acc-cell-complete")
	if !zip {
		c.Require(string(ref.ASmall), string(ref.RSmall))
	} else {
		c.Require("modes-differ", "accept-small-order-key", "accept-small-order-R", "accept-noncanonical-R-honest-key")
	}
	c.Extra("deviation_bound", 0)
	c.ExtraMax("max_deviation_bound", int64(bound))
	accCells := map[[2]int]bool{}
	rt.EnumDev(sp.sizes, bound, func(level int, v []int) {
		if !sp.valid(v) {
			return
		}
		if !c.Take() {
			return
		}
		t, vs, ok := sp.build(v)
		if !ok {
			c.Fail("valid/build disagree on %v", v)
			return
		}
		dev := sp.devNames(v)
		var shapes []batchShape
		if prop == "C05" && level <= 1 {
			shapes = []batchShape{{0, 1}, {1, 2}, {2, 3}, {0, 4}, {3, 4}, {4, 5}, {5, 6}, {6, 7}, {64, 65}, {65, 68}, {69, 70}, {131, 132}}
		}
		exp, cause := modelVerify(t, vs, zip)
		c.Distinct(fmt.Sprint(v), exp || cause != ref.BadLen)
		if exp {
			if v[10] == 0 && v[11] == 0 {
				accCells[[2]int{v[2], v[5]}] = true
			}
			if smallOrderBytes(t.key) {
				c.Class("accept-small-order-key")
			}
			if smallOrderBytes(t.sig[:32]) {
				c.Class("accept-small-order-R")
				if !smallOrderBytes(t.key) && v[11] > 0 && !bytes.Equal(t.sig[:32], mustEncode(t.sig[:32])) {
					c.Class("accept-noncanonical-R-honest-key")
				}
			}
		}
		if c.WantSample() && level > 0 {
			s := hexd(t)
			s["vector"], s["deviations"], s["model"], s["cause"], s["variant"] = fmt.Sprint(v), dev, exp, string(cause), vs.String()
			c.Sample(s)
		}
		compareTriple(c, prop, t, vs, zip, dev, shapes)
	})
	// full torsion-pair grid with an honest scalar part (every (T_i, T_j) cell on the accept side)
	for _, vs := range vAll {
		for ti := 0; ti < 8; ti++ {
			for tj := 0; tj < 8; tj++ {
				for _, kk := range [][2]*big.Int{{a0, big.NewInt(5)}, {a1, badd(ref.L, -1)}} {
					if !c.Take() {
						continue
					}
					t := mkTriple(kk[0], ti, 0, kk[1], tj, 0, msgOf(3, vs), vs)
					c.Distinct(fmt.Sprintf("grid %v %d %d %v", vs, ti, tj, kk[0]), true)
					c.Class(fmt.Sprintf("grid-orders-%d-%d", ref.Torsion(ti).Order(), ref.Torsion(tj).Order()))
					compareTriple(c, prop, t, vs, zip, "grid", nil)
				}
			}
		}
	}
	// points that share y: a key / R and its negation in consecutive calls (anything the library keeps
	// from one call to the next and keys by y alone confuses them), in every order
	for _, vs := range vAll {
		for ai, a := range []*big.Int{a0, big.NewInt(1), a1} {
			if !c.Take() {
				continue
			}
			na := new(big.Int).Sub(ref.L, a)
			pairs := []triple{
				mkTriple(a, 0, 0, big.NewInt(5), 0, 0, msgOf(1, vs), vs),
				mkTriple(na, 0, 0, big.NewInt(5), 0, 0, msgOf(1, vs), vs),
				mkTriple(a, 0, 0, badd(ref.L, -5), 0, 0, msgOf(1, vs), vs),
				mkTriple(na, 4, 0, big.NewInt(5), 4, 0, msgOf(1, vs), vs),
			}
			c.Distinct(fmt.Sprintf("negpair %v %d", vs, ai), true)
			c.Class("negation-pairs")
			for _, order := range [][]int{{0, 1, 0, 1}, {1, 0, 2, 0}, {0, 3, 1, 2}, {2, 2, 1, 1}} {
				for _, i := range order {
					compareTriple(c, prop, pairs[i], vs, zip, "negation-pair", nil)
				}
			}
		}
	}
	c.Require("negation-pairs")
	// one caller buffer per argument, refilled between calls (slice identity is not content identity):
	// a refused small-order / undecodable key, then an honest key in the SAME key buffer, and back
	c.Require("buffer-reuse")
	for vi, vs := range vAll {
		if !c.Take() {
			continue
		}
		c.Class("buffer-reuse")
		c.Distinct(fmt.Sprintf("bufreuse %d", vi), true)
		good := honestTriple(9000+vi, msgOf(1, vs), vs)
		good2 := honestTriple(9100+vi, msgOf(1, vs), vs)
		kb, sb := make([]byte, 32), make([]byte, 64)
		modes := []bool{zip}
		if prop == "C05" {
			modes = []bool{false, true} // the relation between the modes is C05's: both, on the same buffers
		}
		for _, zip := range modes {
			call := func(key, sig []byte, what string, want bool) {
				copy(kb, key)
				copy(sb, sig)
				got, pv := func() (ok bool, pv interface{}) {
					defer func() { pv = recover() }()
					return VerifyWithOptions(kb, good.msg, sb, vs.opts(zip)), nil
				}()
				c.Step(1)
				if pv != nil || got != want {
					c.Violation(prop+" buffer-reuse "+what, fmt.Sprintf("%s verified from reused key / signature buffers (%s, zip215=%v): got %v want %v (panic %v)", what, vs, zip, got, want, pv), map[string]interface{}{"variant": vs.String(), "step": what})
				}
			}
			for ri, rs := range sp.repl {
				if ri%3 != vi%3 {
					continue
				}
				t := triple{rs.b, good.msg, append(append([]byte{}, ptOf(big.NewInt(5), 0).Encode()...), ref.ToLE(big.NewInt(5), 32)...)}
				exp, _ := modelVerify(t, vs, zip)
				call(good.key, good.sig, "honest key first", true)
				call(t.key, t.sig, "replacement key "+rs.name, exp)
				call(good.key, good.sig, "honest key after "+rs.name, true)
				call(good2.key, good2.sig, "second honest key", func() bool { ok, _ := modelVerify(triple{good2.key, good.msg, good2.sig}, vs, zip); return ok }())
				call(t.key, t.sig, "replacement key again "+rs.name, exp)
			}
		}
	}
	c.Require("grid-orders-1-1", "grid-orders-8-8", "grid-orders-2-4", "grid-orders-4-8", "grid-orders-8-2")
	// single-bit perturbations of accepted triples: every bit of key, signature and message
	nb := 1
	if c.Thorough() {
		nb = 3
	}
	for _, vs := range vAll {
		for bi := 0; bi < nb; bi++ {
			var base triple
			switch bi {
			case 0:
				base = honestTriple(7, msgOf(2, vs), vs)
			case 1:
				base = mkTriple(a0, 1, 0, big.NewInt(77), 5, 0, msgOf(2, vs), vs)
			default:
				base = mkTriple(badd(ref.L, -1), 4, 0, a1, 2, 0, msgOf(1, vs), vs)
			}
			if ok, cause := modelVerify(base, vs, zip); !ok {
				c.Fail("bit-flip base triple not accepted by the model: %s", cause)
				return
			}
			nbits := 256 + 512 + 8*len(base.msg)
			for b := 0; b < nbits; b++ {
				if !c.Take() {
					continue
				}
				t := triple{append([]byte{}, base.key...), append([]byte{}, base.msg...), append([]byte{}, base.sig...)}
				where := ""
				switch {
				case b < 256:
					t.key[b/8] ^= 1 << uint(b%8)
					where = "key"
				case b < 768:
					t.sig[(b-256)/8] ^= 1 << uint((b-256)%8)
					where = "sig"
				default:
					t.msg[(b-768)/8] ^= 1 << uint((b-768)%8)
					where = "msg"
				}
				c.Distinct(fmt.Sprintf("flip %v %d %d", vs, bi, b), true)
				c.Class("bitflip-" + where)
				compareTriple(c, prop, t, vs, zip, "bitflip-"+where, nil)
			}
		}
	}
	// the context-length x message-length PLANE for verification: every context length 1..255 with every
	// message length 0..320 under Ed25519ctx, and every context length 0..255 under Ed25519ph (64-byte
	// digest): the honest signature is accepted, and (every fourth point) the message with one more byte
	// is not. A buffer sized for "short context and short message" has its corner inside the plane.
	c.Require("ctx-msg-plane")
	if c.Config == "default" || c.Config == "" {
		for cl := 0; cl <= 255; cl++ {
			for ml0 := 0; ml0 <= 320; ml0 += 32 {
				if !c.Take() {
					continue
				}
				c.Class("ctx-msg-plane")
				c.Distinct(fmt.Sprintf("plane %d %d", cl, ml0), true)
				ctx := ""
				if cl > 0 {
					ctx = strings.Repeat("q", cl-1) + string([]byte{byte(cl)})
				}
				seed := seedOf(950 + cl%5)
				if ml0 == 64 {
					vs := variantSpec{ref.Ph, ctx}
					msg := msgLen(64, cl)
					compareTriple(c, prop, triple{ref.Public(seed), msg, ref.Sign(seed, msg, vs.v, []byte(ctx))}, vs, zip, "ctx-msg-plane-ph", nil)
				}
				if cl == 0 {
					continue
				}
				vs := variantSpec{ref.Ctx, ctx}
				for ml := ml0; ml < ml0+32 && ml <= 320; ml++ {
					msg := msgLen(ml, cl)
					base := triple{ref.Public(seed), msg, ref.Sign(seed, msg, vs.v, []byte(ctx))}
					compareTriple(c, prop, base, vs, zip, "ctx-msg-plane-honest", nil)
					if (cl+ml)%4 == 0 {
						compareTriple(c, prop, triple{base.key, append(append([]byte{}, msg...), byte(ml)), base.sig}, vs, zip, "ctx-msg-plane-plus1", nil)
					}
				}
			}
		}
	} else if c.Take() {
		c.Class("ctx-msg-plane")
		c.Distinct("plane: default configuration only", true)
	}
	// crossed histories: an honest verification under K1, then a triple under K2 = K1 xor mask whose
	// signature was made with K1's secret scalar over the hash of K2's bytes (it satisfies the equation
	// exactly if the verifier takes K1's decompressed point for K2), and the honest one again. Masks:
	// every single bit, every value of byte 0 and of byte 31. A table of decompressed keys indexed or
	// tagged by PART of the key would take one for the other.
	c.Require("crossed-history")
	for vi, vs := range []variantSpec{vPure, vCtx} {
		seedIx := 9300 + vi
		a1, _ := ref.ExpandSeed(seedOf(seedIx))
		honest := honestTriple(seedIx, msgOf(1, vs), vs)
		var masks [][2]int
		for b := 0; b < 256; b++ {
			masks = append(masks, [2]int{b / 8, 1 << uint(b%8)})
		}
		for v := 1; v < 256; v++ {
			masks = append(masks, [2]int{0, v}, [2]int{31, v})
		}
		for mi, m := range masks {
			if !c.Take() {
				continue
			}
			c.Class("crossed-history")
			c.Distinct(fmt.Sprintf("crossed-hist %d %d", vi, mi), true)
			k2 := append([]byte{}, honest.key...)
			k2[m[0]] ^= byte(m[1])
			cross := crossTriple(a1, k2, honest.msg, honest.msg, int64(mi), vs)
			compareTriple(c, prop, honest, vs, zip, "crossed-history-honest-first", nil)
			compareTriple(c, prop, cross, vs, zip, "crossed-history-crossed", nil)
			compareTriple(c, prop, honest, vs, zip, "crossed-history-honest-after", nil)
			// and the other way round: the crossed key seen first
			k3 := append([]byte{}, k2...)
			k3[(m[0]+1)%32] ^= 0x04
			cross3 := crossTriple(a1, k3, honest.msg, honest.msg, int64(mi)+1000, vs)
			compareTriple(c, prop, cross3, vs, zip, "crossed-history-crossed-first", nil)
			compareTriple(c, prop, honest, vs, zip, "crossed-history-honest-last", nil)
		}
	}
	// dense message lengths: EVERY length 0..8320 (C05: every 4th) and windows around 16384, 32768, 65536
	// under pure, a 1-byte and a 255-byte context: the honest signature, the message extended by one
	// byte / by 32 bytes, shortened by one byte, its last and first byte changed - alone and (every 4th
	// length) as a member of a batch of 5. Whatever buffering the hashing of R || A || M uses, every
	// total length across 2048, 4096 and 8192 is met.
	c.Require("dense-msglen")
	shortFillers = true
	var dl []int
	step, thin := 1, 8
	if prop == "C05" {
		step = 4
	}
	if c.Thorough() {
		thin = 1
	} else if c.Config != "default" && c.Config != "" {
		step = 8 // quick tier: the hashing front end is configuration-independent code
	}
	for l := 0; l <= 8320; l += step {
		dl = append(dl, l)
	}
	for _, m := range []int{16384, 32768, 65536} {
		for l := m - 330; l <= m+40; l += step {
			dl = append(dl, l)
		}
	}
	// very long messages (as C02): multiples of 2^18 up to 8 MiB (thorough 24 MiB) and round numbers
	if c.Config == "default" || c.Config == "" || c.Thorough() {
		top := 32
		if c.Thorough() {
			top = 96
		}
		for m := 1; m <= top; m += step {
			dl = append(dl, m<<18)
			if m%4 == 0 {
				dl = append(dl, m<<18-1, m<<18+1)
			}
		}
		dl = append(dl, 1000000, 4000000, 5000000, 3<<19, 3<<20, 5<<20, 7<<19)
	}
	for li, l := range dl {
		for vi, vs := range []variantSpec{vPure, vCtx, {ref.Ctx, strings.Repeat("k", 255)}} {
			if l > 1<<17 && vi > 0 && (li+vi)%3 != 0 && !c.Thorough() {
				continue
			}
			if !c.Take() {
				continue
			}
			c.Distinct(fmt.Sprintf("dense %d %d", l, vi), true)
			c.Class("dense-msglen")
			seed := seedOf(900 + li%5)
			msg := msgLen(l, li)
			base := triple{ref.Public(seed), msg, ref.Sign(seed, msg, vs.v, []byte(vs.ctx))}
			var shapes []batchShape
			if l%(4*thin) == 0 {
				shapes = []batchShape{{li % 5, 5}}
			}
			one := []batchShape{{li % 5, 5}}
			if c.Config != "default" && c.Config != "" && !c.Thorough() {
				one = shapes
			}
			compareTriple(c, prop, base, vs, zip, "dense-msglen-honest", one)
			alt := func(name string, m []byte) {
				compareTriple(c, prop, triple{base.key, m, base.sig}, vs, zip, "dense-msglen-"+name, shapes)
			}
			compareTriple(c, prop, triple{base.key, append(append([]byte{}, msg...), byte(l)), base.sig}, vs, zip, "dense-msglen-plus1", one)
			if l > 1<<17 {
				// a byte changed just below / at every multiple of 2^20 inside the message, and in the middle
				for _, at := range []int{l / 2, l/2 - 1, 1<<20 - 1, 1 << 20, 1<<21 - 1, 1<<22 - 1, 1<<22 - 64, 1 << 22, 3<<19 - 1, 1<<23 - 1} {
					if at >= 0 && at < l {
						m := append([]byte{}, msg...)
						m[at] ^= 0x10
						compareTriple(c, prop, triple{base.key, m, base.sig}, vs, zip, "dense-msglen-inner-byte", nil)
					}
				}
			}
			if l%thin == 0 && ((l/thin+vi)%4 == 0 || vi == 0) {
				alt("plus32", append(append([]byte{}, msg...), msgLen(32, l)...))
				if l > 0 {
					alt("minus1", msg[:l-1])
					m := append([]byte{}, msg...)
					m[l-1] ^= 0x80
					alt("last-byte", m)
					m = append([]byte{}, msg...)
					m[0] ^= 1
					alt("first-byte", m)
				}
			}
		}
	}
	shortFillers = false
	if prop == "C05" {
		jobC05SmallOrderProduct(c)
	}
	if len(accCells) > 0 {
		c.Extra("accept_torsion_cells_this_shard", int64(len(accCells)))
	}
	c.Class("acc-cell-complete")
}

func mustEncode(b []byte) []byte {
	p, ok := ref.Decode(b)
	if !ok {
		return nil
	}
	return p.Encode()
}

// jobC05SmallOrderProduct: DESIGN 4.5 (ii): the full product of the 14 torsion encodings as key and
// as R, (1) raw (accepted iff [8S]B = 0 i.e. S = 0) and (2) with R = any encoding of [S]B + T_j.
func jobC05SmallOrderProduct(c *rt.Ctx) {
	var tors [][]byte
	for i := 0; i < 8; i++ {
		tors = append(tors, ref.Encodings(ref.Torsion(i))...)
	}
	Ss := []*big.Int{big.NewInt(0), big.NewInt(1), big.NewInt(2), badd(pow2(252), -1), pow2(252), badd(ref.L, -1)}
	nm := 1
	if c.Thorough() {
		nm = 3
	}
	for ki, key := range tors {
		for ri, R := range tors {
			for _, S := range Ss {
				for _, vs := range vAll {
					for mi := 0; mi < nm; mi++ {
						if !c.Take() {
							continue
						}
						t := triple{key, msgOf(mi, vs), append(append([]byte{}, R...), ref.ToLE(S, 32)...)}
						exp, _ := modelVerify(t, vs, true)
						if exp != (S.Sign() == 0) {
							c.Fail("raw small-order product: model verdict %v for S=%s", exp, S)
							return
						}
						c.Distinct(fmt.Sprintf("so-raw %d %d %s %v %d", ki, ri, S, vs, mi), true)
						c.Class("so-raw-" + boolStr(exp))
						var shapes []batchShape
						if mi == 0 && (S.Sign() == 0 || S.Cmp(pow2(252)) == 0) {
							shapes = []batchShape{{1, 4}}
						}
						compareTriple(c, "C05", t, vs, true, "small-order-product-raw", shapes)
					}
				}
			}
		}
	}
	for ki, key := range tors {
		for j := 0; j < 8; j++ {
			for _, S := range Ss {
				P := ptOf(S, j)
				for ei, ER := range ref.Encodings(P) {
					for _, vs := range vAll {
						if !c.Take() {
							continue
						}
						t := triple{key, msgOf(2, vs), append(append([]byte{}, ER...), ref.ToLE(S, 32)...)}
						exp, cause := modelVerify(t, vs, true)
						if !exp {
							c.Fail("constructed small-order product rejected by model: %s", cause)
							return
						}
						c.Distinct(fmt.Sprintf("so-con %d %d %s %d %v", ki, j, S, ei, vs), true)
						c.Class("so-constructed-accept")
						var shapes []batchShape
						if j%3 == 0 {
							shapes = []batchShape{{2, 4}}
						}
						compareTriple(c, "C05", t, vs, true, "small-order-product-constructed", shapes)
					}
				}
			}
		}
	}
	c.Require("so-raw-accept", "so-raw-reject", "so-constructed-accept")
}
