package ed25519

import (
	"crypto/sha256"
	"fmt"
	"math/big"

	ref "github.com/oasisprotocol/ed25519/internal/zzverifref"
	rt "github.com/oasisprotocol/ed25519/internal/zzverifrt"
)

func init() { rt.Register("C08", jobC08) }

// jobC08 runs a deterministic list of API calls and records a digest of every call's outputs; the
// driver compares the transcripts of all build configurations case by case.
func jobC08(c *rt.Ctx) {
	c.Require("triple", "sign", "batch", "keygen")
	emit := func(class string, nontrivial bool, desc func() map[string]interface{}, parts ...[]byte) {
		h := sha256.New()
		for _, p := range parts {
			h.Write([]byte{byte(len(p)), byte(len(p) >> 8)})
			h.Write(p)
		}
		c.Step(1)
		c.Class(class)
		c.Distinct(fmt.Sprintf("%s %d", class, c.Index()), nontrivial)
		c.Transcript(h.Sum(nil), desc)
		if c.WantSample() && nontrivial {
			s := desc()
			s["class"], s["digest"] = class, fmt.Sprintf("%x", h.Sum(nil))
			c.Sample(s)
		}
	}
	bb := func(b bool) []byte {
		if b {
			return []byte{1}
		}
		return []byte{0}
	}
	// (1) triples: the C01/C05 space at deviation level <= 2, both modes, all variants
	sp := newTripleSpace(c.Thorough())
	bound := 2
	rt.EnumDev(sp.sizes, bound, func(level int, v []int) {
		if !sp.valid(v) {
			return
		}
		if !c.Take() {
			return
		}
		t, vs, _ := sp.build(v)
		gd, pd := implSingleOpts(t, vs, false)
		gz, pz := implSingleOpts(t, vs, true)
		emit("triple", gd || gz, func() map[string]interface{} {
			d := hexd(t)
			d["variant"], d["default"], d["zip215"] = vs.String(), gd, gz
			return d
		}, bb(gd), bb(gz), bb(pd != nil), bb(pz != nil))
	})
	// (2) torsion grid and S boundary alphabet with small-order keys (ZIP-215)
	SB := alphaSB()
	for ti := 0; ti < 8; ti++ {
		for _, S := range SB {
			if !c.Take() {
				continue
			}
			key := ref.Encodings(ref.Torsion(ti))[0]
			R := ptOf(new(big.Int).Mod(S, ref.L), (ti+3)%8).Encode()
			t := triple{key, msgOf(1, vPure), append(append([]byte{}, R...), ref.ToLE(S, 32)...)}
			gd, _ := implSingleOpts(t, vPure, false)
			gz, _ := implSingleOpts(t, vPure, true)
			emit("triple", gz, func() map[string]interface{} { return hexd(t) }, bb(gd), bb(gz))
		}
	}
	// (3) key generation and signing
	nseeds := 64
	if c.Thorough() {
		nseeds = 1024
	}
	vars := c02Variants(false)
	for i := 0; i < nseeds; i++ {
		for li, l := range c02Lens {
			if li%4 != i%4 && !c.Thorough() {
				continue
			}
			if !c.Take() {
				continue
			}
			seed := seedOf(i)
			k := NewKeyFromSeed(seed)
			sv := vars[(i+li)%len(vars)]
			var msg []byte
			if sv.v == ref.Ph {
				msg = msgLen(64, l)
			} else {
				msg = msgLen(l, i)
			}
			o := variantSpec{sv.v, sv.ctx}.opts(false)
			sig, err := k.Sign(nil, msg, o)
			emit("sign", true, func() map[string]interface{} {
				return map[string]interface{}{"seed": ref.Hex(seed), "msg_len": len(msg), "variant": sv.v.String(), "ctx_len": len(sv.ctx), "sig": ref.Hex(sig)}
			}, k, sig, bb(err != nil))
			if li == i%4 {
				c.Class("keygen")
			}
		}
	}
	// (4) batches: sizes around chunk boundaries x one bad kind x option sets (DRBG entropy)
	for _, n := range []int{0, 1, 3, 4, 5, 8, 63, 64, 65, 68, 127, 128, 129, 131, 200} {
		for ki, kind := range c06Kinds {
			for oi, vs := range vAll {
				if !c.Thorough() && (n+ki)%3 != oi {
					continue
				}
				if n == 0 && ki > 0 {
					continue
				}
				if !c.Take() {
					continue
				}
				zip := (n+ki)%2 == 0
				es := make([]triple, n)
				for i := range es {
					es[i] = mkEntry("good", i, vs)
				}
				pos := -1
				if n > 0 && kind != "good" {
					pos = (ki * 7) % n
					es[pos] = mkEntry(kind, pos, vs)
				}
				all, valid, err, pv := implBatch(es, vs, zip, rt.NewRng(c.Seed, fmt.Sprintf("c08-%d-%d", n, ki)))
				vb := make([]byte, len(valid))
				for i, x := range valid {
					if x {
						vb[i] = 1
					}
				}
				emit("batch", true, func() map[string]interface{} {
					return map[string]interface{}{"n": n, "kind": kind, "pos": pos, "variant": vs.String(), "zip215": zip, "valid": fmt.Sprint(valid), "all": all}
				}, bb(all), vb, bb(err != nil), bb(pv != nil))
			}
		}
	}
}
