package ed25519

import (
	"io"
	"math/big"
	"bytes"
	"crypto"
	"fmt"
	"strings"

	ref "github.com/oasisprotocol/ed25519/internal/zzverifref"
	rt "github.com/oasisprotocol/ed25519/internal/zzverifrt"
)

func init() { rt.Register("C07", jobC07) }

func jobC07(c *rt.Ctx) {
	c.Require("pair/same/accept", "pair/different/reject", "ctxlen/ok", "ctxlen/refused", "digestlen/ok", "digestlen/refused", "hash/ok", "hash/refused", "empty-ctx-is-pure", "after-refused")
	a254 := strings.Repeat("a", 254)
	a255 := strings.Repeat("a", 255)
	a255f := strings.Repeat("a", 254) + "`" // last byte one bit flipped ('a' ^ 1)
	pairs := []variantSpec{
		{ref.Pure, ""},
		{ref.Ctx, "a"}, {ref.Ctx, "b"}, {ref.Ctx, "a\x00"}, {ref.Ctx, "aa"}, {ref.Ctx, a254}, {ref.Ctx, a255}, {ref.Ctx, a255f},
		{ref.Ph, ""}, {ref.Ph, "a"}, {ref.Ph, "b"}, {ref.Ph, a255},
	}
	modes := []string{"single", "batch4", "batch65", "batch4-homogeneous", "batch68-tail-homogeneous", "batch8-malformed-later", "batch3"}
	nk := 2
	for si := range pairs {
		for vi := range pairs {
			for ki := 0; ki < nk; ki++ {
				for mi := 0; mi < 2; mi++ {
					for _, mode := range modes {
						if mode == "batch65" && (ki+mi) != 0 && !c.Thorough() {
							continue
						}
						if !c.Take() {
							continue
						}
						sv, vv := pairs[si], pairs[vi]
						msg := msgOf(mi, vPh) // 64 bytes so that every variant can carry it
						exp := si == vi
						// two sources of signatures: the model (tests verification on its own) and the
						// library's own signer (tests the statement literally: sign under one pair, verify under another)
						t := modelTriple(50+ki, msg, sv)
						if mi == 1 {
							t = libTriple(50+ki, msg, sv)
							if ok, _ := modelVerify(t, sv, false); !ok {
								d := hexd(t)
								d["variant"] = sv.String()
								c.Violation(fmt.Sprintf("C07 library signature not RFC 8032 under %s", sv.v), fmt.Sprintf("the signature the library makes under %s is not a valid signature under that pair (model)", sv), d)
							}
						}
						if mexp, _ := modelVerify(t, vv, false); mexp != exp && mi == 0 {
							c.Fail("model accepts across domains: sign %v verify %v", sv, vv)
							return
						}
						var got bool
						var pv interface{}
						switch mode {
						case "single":
							got, pv = implSingleOpts(t, vv, false)
						case "batch4-homogeneous", "batch68-tail-homogeneous":
							// every entry of the (last) chunk is signed under sv: nothing valid under vv forces a fallback
							n, lo := 4, 0
							if mode != "batch4-homogeneous" {
								n, lo = 68, 64
							}
							entries := append([]triple{}, fillers(vv, n)...)
							for i := lo; i < n; i++ {
								if mi == 1 {
									entries[i] = libTriple(50+ki+i, msg, sv)
								} else {
									entries[i] = modelTriple(50+ki+(i-lo), msg, sv)
								}
							}
							var valid []bool
							var err error
							_, valid, err, pv = implBatch(entries, vv, false, rt.NewRng(c.Seed, "c07h"))
							if err != nil || len(valid) != n {
								pv = fmt.Sprintf("err=%v len=%d", err, len(valid))
							} else {
								got = valid[lo]
								for i, v := range valid {
									if (i >= lo && v != exp) || (i < lo && !v) {
										pv = fmt.Sprintf("entry %d reported %v", i, v)
									}
								}
							}
						default:
							n, pos, mal := 4, 2, -1
							switch mode {
							case "batch65":
								n, pos = 65, 64
							case "batch3":
								n, pos = 3, 1 // below the batching threshold
							case "batch8-malformed-later":
								// a malformed entry BEHIND the entry: the pre-check loops stop there, the entries
								// in front of it are settled by the fallback
								n, pos, mal = 8, 1, 5
							}
							entries := append([]triple{}, batchWith(t, pos, n, vv)...)
							if mal >= 0 {
								m := entries[mal]
								if (ki+si+vi)%2 == 0 {
									m.sig = append([]byte{}, m.sig[:63]...)
								} else {
									m.key = append([]byte{}, m.key[:31]...)
								}
								entries[mal] = m
							}
							var valid []bool
							var err error
							_, valid, err, pv = implBatch(entries, vv, mi == 1, rt.NewRng(c.Seed, "c07"))
							if err != nil || len(valid) != n {
								pv = fmt.Sprintf("err=%v len=%d", err, len(valid))
							} else {
								got = valid[pos]
								for i, v := range valid {
									if i != pos && v != (i != mal) {
										pv = fmt.Sprintf("entry %d reported %v", i, v)
									}
								}
							}
						}
						c.Step(1)
						if exp {
							c.Class("pair/same/accept")
						} else {
							c.Class("pair/different/reject")
						}
						c.Distinct(fmt.Sprintf("pair %d %d %d %d %s", si, vi, ki, mi, mode), true)
						if c.WantSample() && si != vi {
							c.Sample(map[string]interface{}{"signed_under": sv.String(), "verified_under": vv.String(), "mode": mode, "expected": exp, "observed": got})
						}
						if got != exp || pv != nil {
							d := hexd(t)
							d["signed_under"], d["verified_under"], d["mode"], d["panic_or_error"] = sv.String(), vv.String(), mode, fmt.Sprint(pv)
							c.Violation(fmt.Sprintf("C07 pair sign=%s verify=%s exp=%v", sv.v, vv.v, exp),
								fmt.Sprintf("signature made under %s, verified under %s (%s): got %v, want %v (%v)", sv, vv, mode, got, exp, pv), d)
						}
					}
				}
			}
		}
	}
	// separation must survive what an earlier call left behind: after a verification under one pair
	// that was REFUSED at each early exit of the verifier, a signature made under that pair is still
	// accepted under it only
	c.Require("after-refused")
	refusals := []string{"key-small", "R-small", "key-undecodable", "R-undecodable", "sig63", "S+L"}
	for si, sv := range pairs {
		if sv.v == ref.Pure {
			continue
		}
		if !c.Take() {
			continue
		}
		c.Class("after-refused")
		c.Distinct(fmt.Sprintf("after-refused %d", si), true)
		msg := msgOf(1, vPh)
		goodT := modelTriple(60, msg, sv)
		for _, rk := range refusals {
			bad := triple{append([]byte{}, goodT.key...), msg, append([]byte{}, goodT.sig...)}
			switch rk {
			case "key-small":
				bad.key = ref.Encodings(ref.Torsion(0))[0]
				bad.sig = append(append([]byte{}, ptOf(big.NewInt(5), 0).Encode()...), ref.ToLE(big.NewInt(5), 32)...)
			case "R-small":
				copy(bad.sig[:32], ref.Encodings(ref.Torsion(4))[0])
			case "key-undecodable":
				bad.key = append([]byte{}, firstUndecodable()...)
			case "R-undecodable":
				copy(bad.sig[:32], firstUndecodable())
			case "sig63":
				bad.sig = bad.sig[:63]
			case "S+L":
				S := ref.LE(bad.sig[32:])
				S.Add(S, ref.L)
				copy(bad.sig[32:], ref.ToLE(S, 32))
			}
			for vi, vv := range pairs {
				if got, pv := implSingleOpts(bad, sv, false); got || pv != nil {
					c.Violation("C07 after-refused refusal", fmt.Sprintf("a %s triple under %s was not refused (%v)", rk, sv, pv), nil)
				}
				got, pv := implSingleOpts(goodT, vv, false)
				c.Step(2)
				if pv != nil || got != (vi == si) {
					d := hexd(goodT)
					d["signed_under"], d["verified_under"], d["refused_before"] = sv.String(), vv.String(), rk
					c.Violation(fmt.Sprintf("C07 after-refused sign=%s verify=%s", sv.v, vv.v), fmt.Sprintf("after a %s refusal under %s: signature made under %s verified under %s: got %v want %v (%v)", rk, sv, sv, vv, got, vi == si, pv), d)
				}
			}
		}
	}
	// contract: context lengths 0..300 x {Sign, VerifyWithOptions, VerifyBatch} x {Hash 0, SHA-512}
	priv := NewKeyFromSeed(seedOf(60))
	pub := priv.Public().(PublicKey)
	digest := msgOf(0, vPh)
	for l := 0; l <= 300; l++ {
		for hi := 0; hi < 2; hi++ {
			if !c.Take() {
				continue
			}
			ctx := strings.Repeat("k", l)
			o := &Options{Context: ctx}
			if hi == 1 {
				o.Hash = crypto.SHA512
			}
			wantRefuse := l > 255
			sig, serr := priv.Sign(nil, digest, o)
			c.Step(3)
			c.Distinct(fmt.Sprintf("ctxlen %d %d", l, hi), true)
			if wantRefuse {
				c.Class("ctxlen/refused")
			} else {
				c.Class("ctxlen/ok")
			}
			fail := func(what string) {
				c.Violation(fmt.Sprintf("C07 ctxlen api=%s refuse=%v", what, wantRefuse), fmt.Sprintf("%s with context length %d (hash %d): contract violated", what, l, hi),
					map[string]interface{}{"ctx_len": l, "hash": hi})
			}
			if (serr != nil) != wantRefuse || (serr == nil && len(sig) != 64) || (serr != nil && sig != nil) {
				fail("Sign")
			}
			if !wantRefuse && l > 0 {
				// the bytes are RFC 8032's for this very context: its length octet takes every value 1..255
				// (37 = '%', 0 and 10 as bytes, ...), whatever the library's own verifier would agree to
				vv := ref.Ctx
				if hi == 1 {
					vv = ref.Ph
				}
				if want := ref.Sign(seedOf(60), digest, vv, []byte(ctx)); !bytes.Equal(sig, want) {
					fail("Sign-differs-from-RFC8032")
				}
			}
			if l == 0 && hi == 0 {
				c.Class("empty-ctx-is-pure")
				if !bytes.Equal(sig, Sign(priv, digest)) || !Verify(pub, digest, sig) {
					fail("Sign-empty-context-is-pure")
				}
			}
			vsig := sig
			if vsig == nil {
				vsig = make([]byte, 64)
			}
			ok, pv := func() (ok bool, pv interface{}) {
				defer func() { pv = recover() }()
				return VerifyWithOptions(pub, digest, vsig, o), nil
			}()
			if (pv != nil) != wantRefuse || (!wantRefuse && !ok) {
				fail("VerifyWithOptions")
			}
			// every batch size class: empty, below the batching threshold (single-verification path), one
			// chunk, chunk plus unbatched tail, chunk plus batched tail
			ns := []int{0, 1, 3, 4, 5}
			if c.Thorough() || l < 3 || l >= 250 {
				ns = append(ns, 65, 68)
			}
			for _, n := range ns {
				pubs := make([]PublicKey, n)
				msgs := make([][]byte, n)
				sigs := make([][]byte, n)
				for i := 0; i < n; i++ {
					pubs[i], msgs[i], sigs[i] = pub, digest, vsig
				}
				all, valid, berr, bpv := func() (a bool, v []bool, e error, pv interface{}) {
					defer func() { pv = recover() }()
					a, v, e = VerifyBatch(rt.NewRng(1, "x"), pubs, msgs, sigs, o)
					return
				}()
				c.Step(1)
				if bpv != nil || (berr != nil) != wantRefuse || (!wantRefuse && (!all || len(valid) != n)) || (wantRefuse && (all || valid != nil)) {
					fail(fmt.Sprintf("VerifyBatch(n=%d)", n))
				}
			}
		}
	}
	// refusal x content: an option set that must be refused (over-long context, pre-hash selected with a
	// message that is not 64 bytes, unsupported hash) is refused WHATEVER the other arguments hold - a
	// 64-byte signature with S >= L, an undecodable or small-order R or key: no argument content may
	// turn the refusal into an ordinary "false"
	c.Require("refusal-cross")
	{
		long := strings.Repeat("k", 256)
		type ro struct {
			name string
			o    Options
			msg  []byte
			what string // batch behaviour: "error" or "false"
		}
		ros := []ro{
			{"ctx256", Options{Context: long}, digest, "error"},
			{"ph+ctx256", Options{Hash: crypto.SHA512, Context: long}, digest, "error"},
			{"ctx300+zip", Options{Context: strings.Repeat("z", 300), ZIP215Verify: true}, digest, "error"},
			{"ph-digest63", Options{Hash: crypto.SHA512}, digest[:63], "false"},
			{"ph-digest65", Options{Hash: crypto.SHA512, Context: "c"}, append(append([]byte{}, digest...), 1), "false"},
			{"ph-digest0+zip", Options{Hash: crypto.SHA512, ZIP215Verify: true}, []byte{}, "false"},
			{"sha256", Options{Hash: crypto.SHA256}, digest, "false"},
			{"hash99+zip", Options{Hash: crypto.Hash(99), ZIP215Verify: true}, digest, "false"},
		}
		base := modelTriple(60, digest, vPure)
		und := firstUndecodable()
		type tk struct {
			name string
			mk   func() (key, sig []byte)
		}
		cp := func(b []byte) []byte { return append([]byte{}, b...) }
		withS := func(S []byte) []byte { return append(cp(base.sig[:32]), S...) }
		tks := []tk{
			{"honest-pure", func() ([]byte, []byte) { return cp(base.key), cp(base.sig) }},
			{"S=L", func() ([]byte, []byte) { return cp(base.key), withS(ref.ToLE(ref.L, 32)) }},
			{"S=ff", func() ([]byte, []byte) { return cp(base.key), withS(bytes.Repeat([]byte{0xff}, 32)) }},
			{"S=0", func() ([]byte, []byte) { return cp(base.key), withS(make([]byte, 32)) }},
			{"S+L", func() ([]byte, []byte) {
				return cp(base.key), withS(ref.ToLE(new(big.Int).Add(ref.LE(base.sig[32:]), ref.L), 32))
			}},
			{"R-undecodable", func() ([]byte, []byte) { return cp(base.key), append(cp(und), base.sig[32:]...) }},
			{"R-small", func() ([]byte, []byte) { return cp(base.key), append(cp(ref.Encodings(ref.Torsion(4))[0]), base.sig[32:]...) }},
			{"key-small", func() ([]byte, []byte) { return cp(ref.Encodings(ref.Torsion(0))[0]), cp(base.sig) }},
			{"key-undecodable", func() ([]byte, []byte) { return cp(und), cp(base.sig) }},
			{"all-zero", func() ([]byte, []byte) { return make([]byte, 32), make([]byte, 64) }},
			{"all-ff", func() ([]byte, []byte) { return bytes.Repeat([]byte{0xff}, 32), bytes.Repeat([]byte{0xff}, 64) }},
		}
		for ri, r := range ros {
			for ti, k := range tks {
				if !c.Take() {
					continue
				}
				c.Class("refusal-cross")
				c.Distinct(fmt.Sprintf("refcross %d %d", ri, ti), true)
				key, sig := k.mk()
				o := r.o
				fail := func(api, what string) {
					c.Violation(fmt.Sprintf("C07 refusal-cross api=%s options=%s", api, r.name), fmt.Sprintf("%s with options %s and a %s signature/key: %s", api, r.name, k.name, what),
						map[string]interface{}{"options": r.name, "content": k.name, "key": ref.Hex(key), "sig": ref.Hex(sig), "msg_len": len(r.msg)})
				}
				ok, pv := func() (ok bool, pv interface{}) {
					defer func() { pv = recover() }()
					return VerifyWithOptions(key, r.msg, sig, &o), nil
				}()
				c.Step(1)
				if pv == nil {
					fail("VerifyWithOptions", fmt.Sprintf("returned %v instead of refusing the options with a panic", ok))
				}
				for _, n := range []int{1, 3, 4, 5, 68} {
					pubs := make([]PublicKey, n)
					msgs := make([][]byte, n)
					sigs := make([][]byte, n)
					for i := 0; i < n; i++ {
						pubs[i], msgs[i], sigs[i] = base.key, r.msg, base.sig
					}
					pubs[n/2], sigs[n/2] = key, sig
					all, valid, berr, bpv := func() (a bool, v []bool, e error, pv interface{}) {
						defer func() { pv = recover() }()
						a, v, e = VerifyBatch(rt.NewRng(1, "x"), pubs, msgs, sigs, &o)
						return
					}()
					c.Step(1)
					switch {
					case bpv != nil:
						fail("VerifyBatch", fmt.Sprintf("panicked (n=%d): %v", n, bpv))
					case r.what == "error" && (berr == nil || all || valid != nil):
						fail("VerifyBatch", fmt.Sprintf("n=%d: expected an error and no result, got all=%v valid=%v err=%v", n, all, valid, berr))
					case r.what == "false":
						bad := berr != nil || all || len(valid) != n
						for _, v := range valid {
							bad = bad || v
						}
						if bad {
							fail("VerifyBatch", fmt.Sprintf("n=%d: expected every entry false without an error, got all=%v valid=%v err=%v", n, all, valid, berr))
						}
					}
				}
				if ti == 0 {
					so := r.o
					s2, serr := priv.Sign(nil, r.msg, &so)
					c.Step(1)
					if serr == nil || s2 != nil {
						fail("Sign", "signed under options that must be refused")
					}
				}
			}
		}
	}
	// re-entrancy and Options values copied by VALUE: a VerifyBatch call under context A whose entropy
	// reader - while the call is under way - makes another library call under context B (same length /
	// other length / pre-hash flag flipped), with an Options value that is fresh, or a struct copy of
	// the outer call's Options made after its first use. Entries signed under B are all rejected by the
	// outer call, entries signed under A all accepted; the inner call gets its own right answer.
	c.Require("reentrant-options")
	{
		type inner struct {
			name string
			ctx  string
			ph   bool
		}
		inners := []inner{{"same-length", "tenant-B", false}, {"shorter", "ten-B", false}, {"longer", "tenant-B-with-a-longer-name", false}, {"ph-flag", "tenant-A", true}, {"empty-ctx-ph", "", true}}
		for ii, in := range inners {
			for form := 0; form < 4; form++ {
				if !c.Take() {
					continue
				}
				c.Class("reentrant-options")
				c.Distinct(fmt.Sprintf("reentrant %d %d", ii, form), true)
				outerVs := variantSpec{ref.Ctx, "tenant-A"}
				innerVs := variantSpec{ref.Ctx, in.ctx}
				if in.ph {
					innerVs.v = ref.Ph
				}
				tmpl := &Options{Context: "tenant-A"}
				first := modelTriple(70, digest, outerVs)
				if !VerifyWithOptions(first.key, first.msg, first.sig, tmpl) { // first use of the template
					c.Violation("C07 reentrant first-use", "honest signature under the template options rejected", nil)
				}
				var innerOpts *Options
				switch form {
				case 0, 2: // struct copy of the used template
					cp := *tmpl
					cp.Context = in.ctx
					if in.ph {
						cp.Hash = crypto.SHA512
					}
					innerOpts = &cp
				default: // fresh value
					innerOpts = innerVs.opts(false)
				}
				innerT := modelTriple(71, digest, innerVs)
				// outer batch: forms 0/1: entries signed under the INNER variant (all must be rejected);
				// forms 2/3: entries signed under the outer variant (all must be accepted)
				signVs := innerVs
				if form >= 2 {
					signVs = outerVs
				}
				var es []triple
				for j := 0; j < 8; j++ {
					es = append(es, modelTriple(72+j, digest, signVs))
				}
				innerOK, innerPanic := false, interface{}(nil)
				rd := &callbackReader{r: rt.NewRng(c.Seed, "reentrant"), cb: func() {
					defer func() { innerPanic = recover() }()
					innerOK = VerifyWithOptions(innerT.key, innerT.msg, innerT.sig, innerOpts)
					_, _ = NewKeyFromSeed(seedOf(3)).Sign(nil, digest, innerOpts)
				}}
				pubs, msgs, sigs, _ := layoutBatch(es)
				all, valid, err := VerifyBatch(rd, pubs, msgs, sigs, tmpl)
				c.Step(3)
				want := form >= 2
				bad := err != nil || len(valid) != 8 || all != want || !innerOK || innerPanic != nil || !rd.called
				for _, v := range valid {
					bad = bad || v != want
				}
				if bad {
					c.Violation(fmt.Sprintf("C07 reentrant-options inner=%s form=%d", in.name, form), fmt.Sprintf("VerifyBatch under ctx/%q whose entropy reader verified and signed under %s (options: %s): entries signed under %s reported %v all=%v err=%v (want all %v); inner verification %v (panic %v)",
						"tenant-A", innerVs, map[bool]string{true: "struct copy of the used template", false: "fresh value"}[form%2 == 0], signVs, valid, all, err, want, innerOK, innerPanic),
						map[string]interface{}{"inner": in.name, "form": form})
				}
			}
		}
	}
	// many DISTINCT contexts in one process: sign under A, then 17000 (thorough 70000) cheap calls under
	// as many different contexts (past 2^14 / 2^16 of them), sign under B, and A again: the A signature is
	// the RFC one both times, verifies under A, the B signature does not verify under A (a bounded table
	// of per-context material that recycles its slots)
	c.Require("many-contexts")
	for hi := 0; hi < 2; hi++ {
		if !c.Take() {
			continue
		}
		c.Class("many-contexts")
		c.Distinct(fmt.Sprintf("manyctx %d", hi), true)
		mk := func(ctx string) variantSpec {
			if hi == 1 {
				return variantSpec{ref.Ph, ctx}
			}
			return variantSpec{ref.Ctx, ctx}
		}
		vA, vB := mk("tenant-A"), mk("tenant-B")
		tA := modelTriple(80, digest, vA)
		tB := modelTriple(80, digest, vB)
		sA1, e1 := priv.Sign(nil, digest, vA.opts(false))
		nfill := 17000
		if c.Thorough() {
			nfill = 70000
		}
		junk := append(append([]byte{}, tA.sig[:32]...), ref.ToLE(ref.L, 32)...) // S = L (top bits clear): refused only after the prefix went into the hash
		for i := 0; i < nfill; i++ {
			fv := mk(fmt.Sprintf("filler-%d", i))
			if i%2 == 0 {
				fv = variantSpec{ref.Ctx, fmt.Sprintf("f%d", i)}
			}
			if i%1000 == 7 {
				implSingleOpts(modelTriple(81, digest, fv), fv, false)
			} else {
				implSingleOpts(triple{tA.key, digest, junk}, fv, false)
			}
		}
		c.Step(nfill)
		sB, e2 := priv.Sign(nil, digest, vB.opts(false))
		sA2, e3 := priv.Sign(nil, digest, vA.opts(false))
		wantA := ref.Sign(seedOf(60), digest, vA.v, []byte(vA.ctx))
		wantB := ref.Sign(seedOf(60), digest, vB.v, []byte(vB.ctx))
		okA, _ := implSingleOpts(tA, vA, false)
		okBA, _ := implSingleOpts(tB, vA, false)
		okB, _ := implSingleOpts(tB, vB, false)
		_, validBA, _, _ := implBatch([]triple{tB, tB, tB, tB, tA}, vA, false, rt.NewRng(c.Seed, "manyctx"))
		if e1 != nil || e2 != nil || e3 != nil || !bytes.Equal(sA1, wantA) || !bytes.Equal(sA2, wantA) || !bytes.Equal(sB, wantB) || !okA || okBA || !okB || len(validBA) != 5 || validBA[0] || !validBA[4] {
			c.Violation(fmt.Sprintf("C07 many-contexts variant=%s", vA.v), fmt.Sprintf("after %d calls under distinct contexts: Sign(A) RFC before/after %v/%v, Sign(B) RFC %v, A verifies under A %v, B verifies under A %v (must not), B under B %v, batch of B,B,B,B,A under A %v", nfill, bytes.Equal(sA1, wantA), bytes.Equal(sA2, wantA), bytes.Equal(sB, wantB), okA, okBA, okB, validBA),
				map[string]interface{}{"fillers": nfill, "variant": vA.v.String()})
		}
	}
	// context CONTENT: bytes that mean something to formatting, templating, C strings, UTF-8 or shells are
	// just bytes here. Sign == RFC 8032 (model), the model's signature verifies, single and in a batch
	c.Require("ctx-content")
	specials := []string{"%", "%s", "%d%%", "100%", "%!s(MISSING)", "%v%v%v%v", "a%20b", "{{.}}", "${x}", "\x00", "\x00tail", "head\x00", "\n", "\r\n", "\xff\xfe", "\xc3\x28", "\"quoted\"", "back\\slash", "tab\there", strings.Repeat("%", 37), strings.Repeat("%x", 100)}
	for si, sc := range specials {
		for hi := 0; hi < 2; hi++ {
			if !c.Take() {
				continue
			}
			c.Class("ctx-content")
			c.Distinct(fmt.Sprintf("ctxcontent %d %d", si, hi), true)
			vs := variantSpec{ref.Ctx, sc}
			if hi == 1 {
				vs = variantSpec{ref.Ph, sc}
			}
			t := modelTriple(60, digest, vs)
			sig, serr := priv.Sign(nil, digest, vs.opts(false))
			ok, pv := implSingleOpts(t, vs, false)
			_, valid, berr, bpv := implBatch(batchWith(t, 1, 5, vs), vs, false, rt.NewRng(c.Seed, "ctxc"))
			c.Step(3)
			if serr != nil || !bytes.Equal(sig, t.sig) || !ok || pv != nil || berr != nil || bpv != nil || len(valid) != 5 || !valid[1] || !valid[0] {
				c.Violation(fmt.Sprintf("C07 ctx-content variant=%s", vs.v), fmt.Sprintf("context %q under %s: Sign err=%v equals RFC 8032: %v; RFC signature verifies: %v (panic %v); in a batch: %v (err %v)", sc, vs.v, serr, bytes.Equal(sig, t.sig), ok, pv, valid, berr), map[string]interface{}{"context": ref.Hex([]byte(sc)), "variant": vs.v.String()})
			}
		}
	}
	// digest lengths 0..130 under SHA-512: Sign error, Verify panic, batch entry false exactly when != 64
	for l := 0; l <= 130; l++ {
		if !c.Take() {
			continue
		}
		d := msgLen(l, 3)
		o := &Options{Hash: crypto.SHA512, Context: "x"}
		wantRefuse := l != 64
		c.Step(3)
		c.Distinct(fmt.Sprintf("digestlen %d", l), true)
		if wantRefuse {
			c.Class("digestlen/refused")
		} else {
			c.Class("digestlen/ok")
		}
		fail := func(what string) {
			c.Violation(fmt.Sprintf("C07 digestlen api=%s refuse=%v", what, wantRefuse), fmt.Sprintf("%s with pre-hash length %d: contract violated", what, l), map[string]interface{}{"digest_len": l})
		}
		sig, serr := priv.Sign(nil, d, o)
		if (serr != nil) != wantRefuse {
			fail("Sign")
		}
		// the other spellings of the pre-hash selector: a bare crypto.Hash, Options without a context
		if _, e := priv.Sign(nil, d, crypto.SHA512); (e != nil) != wantRefuse {
			fail("Sign(bare crypto.SHA512)")
		}
		if _, e := priv.Sign(nil, d, &Options{Hash: crypto.SHA512}); (e != nil) != wantRefuse {
			fail("Sign(Options{Hash} without context)")
		}
		if _, e := priv.Sign(nil, d, &Options{Hash: crypto.SHA512, ZIP215Verify: true}); (e != nil) != wantRefuse {
			fail("Sign(Options{Hash, ZIP215Verify})")
		}
		good, _ := priv.Sign(nil, digest, o)
		vsig := sig
		if vsig == nil {
			vsig = good
		}
		ok, pv := func() (ok bool, pv interface{}) {
			defer func() { pv = recover() }()
			return VerifyWithOptions(pub, d, vsig, o), nil
		}()
		if (pv != nil) != wantRefuse || (!wantRefuse && !ok) {
			fail("VerifyWithOptions")
		}
		if wantRefuse {
			// a signature that satisfies the ph equation over the wrong-length "digest" (model-made; the
			// library's signer refuses to make it): the length rule alone must keep it out
			vsig = ref.Sign(seedOf(60), d, ref.Ph, []byte("x"))
		}
		// batch sizes 5 (one chunk), 70 (a full chunk plus a batched remainder) and 140 (two full chunks
		// plus a batched remainder): the wrong-length digest at every chunk's first/last positions
		type shape struct{ n, pos int }
		shapes := []shape{{1, 0}, {3, 2}, {4, 3}, {5, 0}, {5, 4}}
		if c.Thorough() || l < 3 || (l >= 62 && l <= 66) || l == 32 || l >= 127 {
			shapes = append(shapes, shape{70, 0}, shape{70, 5}, shape{70, 63}, shape{70, 64}, shape{70, 69}, shape{140, 64}, shape{140, 127}, shape{140, 128}, shape{140, 133}, shape{140, 139})
		}
		for _, sh := range shapes {
			n, pos := sh.n, sh.pos
			pubs := make([]PublicKey, n)
			msgs := make([][]byte, n)
			sigs := make([][]byte, n)
			for i := range pubs {
				pubs[i], msgs[i], sigs[i] = pub, digest, good
			}
			msgs[pos], sigs[pos] = d, vsig
			all, valid, berr, bpv := func() (a bool, v []bool, e error, pv interface{}) {
				defer func() { pv = recover() }()
				a, v, e = VerifyBatch(rt.NewRng(1, "x"), pubs, msgs, sigs, o)
				return
			}()
			c.Step(1)
			bad := bpv != nil || berr != nil || len(valid) != n
			if !bad {
				for i, v := range valid {
					if v != (i != pos || !wantRefuse) {
						bad = true
					}
				}
				bad = bad || all != !wantRefuse
			}
			if bad {
				fail(fmt.Sprintf("VerifyBatch(n=%d)", n))
			}
		}
	}
	// hash selectors 0..20: accepted iff 0 or SHA-512
	hsels := []uint{}
	for h := uint(0); h <= 24; h++ {
		hsels = append(hsels, h)
	}
	hsels = append(hsels, 64, 200, 1<<31)
	for _, hsel := range hsels {
		if !c.Take() {
			continue
		}
		o := &Options{Hash: crypto.Hash(hsel)}
		okSel := hsel == 0 || crypto.Hash(hsel) == crypto.SHA512
		c.Step(3)
		c.Distinct(fmt.Sprintf("hash %d", hsel), true)
		if okSel {
			c.Class("hash/ok")
		} else {
			c.Class("hash/refused")
		}
		fail := func(what string) {
			c.Violation(fmt.Sprintf("C07 hashsel api=%s ok=%v", what, okSel), fmt.Sprintf("%s with hash selector %d: contract violated", what, hsel), map[string]interface{}{"hash": hsel})
		}
		sig, serr := priv.Sign(nil, digest, o)
		if (serr == nil) != okSel {
			fail("Sign")
		}
		s2, serr2 := priv.Sign(nil, digest, crypto.Hash(hsel))
		if (serr2 == nil) != okSel || (okSel && !bytes.Equal(s2, sig)) {
			fail("Sign-bare-hash")
		}
		vsig := sig
		if vsig == nil {
			vsig = make([]byte, 64)
		}
		ok, pv := func() (ok bool, pv interface{}) {
			defer func() { pv = recover() }()
			return VerifyWithOptions(pub, digest, vsig, o), nil
		}()
		if (pv == nil) != okSel || (okSel && !ok) {
			fail("VerifyWithOptions")
		}
		all, valid, berr, bpv := func() (a bool, v []bool, e error, pv interface{}) {
			defer func() { pv = recover() }()
			a, v, e = VerifyBatch(rt.NewRng(1, "x"), []PublicKey{pub, pub, pub, pub, pub}, [][]byte{digest, digest, digest, digest, digest}, [][]byte{vsig, vsig, vsig, vsig, vsig}, o)
			return
		}()
		bad := bpv != nil || berr != nil || len(valid) != 5 || all != okSel
		for _, v := range valid {
			if v != okSel {
				bad = true
			}
		}
		if bad {
			fail("VerifyBatch")
		}
	}
}

var modelTripleMemo = map[string]triple{}

// modelTriple signs with the reference model (RFC 8032), independently of the library's signer.
func modelTriple(seedIdx int, msg []byte, vs variantSpec) triple {
	k := fmt.Sprintf("%d|%x|%s", seedIdx, msg, vs)
	if t, ok := modelTripleMemo[k]; ok {
		return t
	}
	seed := seedOf(seedIdx)
	t := triple{ref.Public(seed), msg, ref.Sign(seed, msg, vs.v, []byte(vs.ctx))}
	modelTripleMemo[k] = t
	return t
}

// callbackReader runs cb inside its first Read (a call made by the environment while the outer call is
// under way), then delivers.
type callbackReader struct {
	r      io.Reader
	cb     func()
	called bool
}

func (r *callbackReader) Read(p []byte) (int, error) {
	if !r.called {
		r.called = true
		r.cb()
	}
	return r.r.Read(p)
}
