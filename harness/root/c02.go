package ed25519

import (
	"sync"
	"runtime"
	"crypto/sha512"
	"bytes"
	"crypto"
	stded "crypto/ed25519"
	"fmt"
	"io"
	"math/big"
	"strings"

	"github.com/oasisprotocol/ed25519/internal/modm"
	ref "github.com/oasisprotocol/ed25519/internal/zzverifref"
	rt "github.com/oasisprotocol/ed25519/internal/zzverifrt"
)

func init() {
	rt.Register("C02", jobC02)
	rt.Register("C03", jobC03)
}

type recReader struct{ calls int }

func (r *recReader) Read(p []byte) (int, error) { r.calls++; return len(p), nil }

type panicReader struct{}

func (panicReader) Read(p []byte) (int, error) { panic("entropy argument was read") }

type seedReader struct {
	b   []byte
	off int
}

func (r *seedReader) Read(p []byte) (int, error) {
	if r.off >= len(r.b) {
		return 0, io.EOF
	}
	n := copy(p, r.b[r.off:])
	r.off += n
	return n, nil
}

func msgLen(n, salt int) []byte {
	m := make([]byte, n)
	for i := range m {
		m[i] = byte(i*13 + salt)
	}
	return m
}

var c02Lens = []int{0, 1, 2, 31, 32, 33, 63, 64, 65, 95, 96, 111, 112, 127, 128, 129, 255, 256, 1023, 4096}

type signVariant struct {
	v   ref.Variant
	ctx string
}

func c02Variants(thorough bool) []signVariant {
	out := []signVariant{{ref.Pure, ""}}
	cl := []int{1, 2, 31, 32, 94, 95, 96, 254, 255}
	pl := []int{0, 1, 254, 255}
	if thorough {
		cl = cl[:0]
		for i := 1; i <= 255; i++ {
			cl = append(cl, i)
		}
		pl = pl[:0]
		for i := 0; i <= 255; i++ {
			pl = append(pl, i)
		}
	}
	for _, l := range cl {
		out = append(out, signVariant{ref.Ctx, strings.Repeat("c", l-1) + string([]byte{byte(l)})})
	}
	for _, l := range pl {
		s := ""
		if l > 0 {
			s = strings.Repeat("p", l-1) + string([]byte{byte(l)})
		}
		out = append(out, signVariant{ref.Ph, s})
	}
	return out
}

var pubMemo = map[int][]byte{}

func refPublic(seedIdx int) []byte {
	if p, ok := pubMemo[seedIdx]; ok {
		return p
	}
	p := ref.Public(seedOf(seedIdx))
	pubMemo[seedIdx] = p
	return p
}

func jobC02(c *rt.Ctx) {
	c.Require("pure", "ctx", "ph", "style/hash0", "style/sha512", "style/options", "style/helper", "style/record", "keygen")
	nseeds := 256
	if c.Thorough() {
		nseeds = 4096
	}
	vars := c02Variants(c.Thorough())
	seedIdx := func(i int) int {
		if i == nseeds-1 {
			return -1 // 0xff..ff
		}
		if i%4 == 3 {
			return -2 - i // hash-derived seed (all 32 bytes non-trivial)
		}
		return i
	}
	// (1) key derivation for every seed of the alphabet
	for i := 0; i < nseeds; i++ {
		if !c.Take() {
			continue
		}
		si := seedIdx(i)
		seed := seedOf(si)
		want := refPublic(si)
		std := stded.NewKeyFromSeed(seed)
		if !bytes.Equal(want, std[32:]) {
			c.Fail("model and toolchain disagree on public key of seed %x", seed)
			return
		}
		k := NewKeyFromSeed(append([]byte{}, seed...))
		pub, priv, err := GenerateKey(&seedReader{b: append(append([]byte{}, seed...), 0xaa, 0xbb)})
		c.Step(2)
		c.Class("keygen")
		c.DistinctB(true, []byte("key"), seed)
		if len(k) != 64 || !bytes.Equal(k[:32], seed) || !bytes.Equal(k[32:], want) || err != nil || !bytes.Equal(pub, want) || !bytes.Equal(priv, k) {
			c.Violation("C02 keygen", fmt.Sprintf("seed %x: NewKeyFromSeed/GenerateKey public key differs from RFC 8032 5.1.5", seed),
				map[string]interface{}{"seed": ref.Hex(seed), "expected_pub": ref.Hex(want), "observed_key": ref.Hex(k), "generate_pub": ref.Hex(pub), "err": fmt.Sprint(err)})
		}
	}
	// (2) signatures: deviation-style: every seed x every length (pure); 8 seeds x every length x every variant
	type cs struct {
		si, li, vi int
	}
	var cases []cs
	for i := 0; i < nseeds; i++ {
		for li := range c02Lens {
			cases = append(cases, cs{i, li, 0})
		}
	}
	vseeds := 6
	if c.Thorough() {
		vseeds = 12
	}
	for i := 0; i < vseeds; i++ {
		for li := range c02Lens {
			for vi := 1; vi < len(vars); vi++ {
				if c.Thorough() && vi%4 != (li+i)%4 && li > 5 {
					continue // thorough: every context length with every seed at 6 lengths, 1/4 of the rest
				}
				cases = append(cases, cs{i * 7 % nseeds, li, vi})
			}
		}
	}
	for _, k := range cases {
		if !c.Take() {
			continue
		}
		si := seedIdx(k.si)
		seed := seedOf(si)
		sv := vars[k.vi]
		var msg []byte
		if sv.v == ref.Ph {
			msg = msgLen(64, c02Lens[k.li])
		} else {
			msg = msgLen(c02Lens[k.li], k.si)
		}
		want := ref.Sign(seed, msg, sv.v, []byte(sv.ctx))
		// toolchain opinion
		stdk := stded.NewKeyFromSeed(seed)
		so := &stded.Options{Context: sv.ctx}
		if sv.v == ref.Ph {
			so.Hash = crypto.SHA512
		}
		stdsig, serr := stdk.Sign(nil, msg, so)
		if serr != nil || !bytes.Equal(stdsig, want) {
			c.Fail("model and toolchain disagree on signature (seed %x, %s, ctx len %d): %v", seed, sv.v, len(sv.ctx), serr)
			return
		}
		priv := NewKeyFromSeed(seed)
		privCopy := append([]byte{}, priv...)
		msgCopy := append([]byte{}, msg...)
		c.Class(sv.v.String())
		c.DistinctB(true, []byte("sig"), seed, msg, []byte(sv.ctx), []byte{byte(sv.v)})
		check := func(style string, sig []byte, err error) {
			c.Step(1)
			c.Class("style/" + style)
			if err != nil || !bytes.Equal(sig, want) {
				c.Violation(fmt.Sprintf("C02 sign variant=%s style=%s", sv.v, style),
					fmt.Sprintf("signature differs from RFC 8032 5.1.6 (seed %x, msg len %d, %s, ctx len %d, style %s)", seed, len(msg), sv.v, len(sv.ctx), style),
					map[string]interface{}{"seed": ref.Hex(seed), "msg": ref.Hex(msg), "ctx": ref.Hex([]byte(sv.ctx)), "variant": sv.v.String(), "expected": ref.Hex(want), "observed": ref.Hex(sig), "err": fmt.Sprint(err), "style": style})
			}
		}
		rec := &recReader{}
		opts := &Options{Context: sv.ctx}
		if sv.v == ref.Ph {
			opts.Hash = crypto.SHA512
		}
		s1, e1 := priv.Sign(rec, msg, opts)
		check("options", s1, e1)
		func() {
			defer func() {
				if r := recover(); r != nil {
					c.Violation("C02 entropy-read", fmt.Sprintf("PrivateKey.Sign read from (or panicked with) its entropy argument: %v", r), map[string]interface{}{"seed": ref.Hex(seed), "variant": sv.v.String()})
				}
			}()
			s2, e2 := priv.Sign(panicReader{}, msg, opts)
			check("options", s2, e2)
		}()
		s3, e3 := priv.Sign(nil, msg, opts)
		check("options", s3, e3)
		// the same Options value a caller uses for ZIP-215 verification handed to Sign: the
		// verification-only field must not steer signing
		oz := *opts
		oz.ZIP215Verify = true
		sz, ez := priv.Sign(nil, msg, &oz)
		check("options-zip215", sz, ez)
		if len(sv.ctx) > 0 {
			// one Options value a caller keeps and re-fills between calls: contexts of the same length
			// that differ in the last / first byte only, and a shorter and a longer one, are signed under
			// first; the signature depends on the options as they are at the call
			prev := []string{flipByte(sv.ctx, len(sv.ctx)-1), flipByte(sv.ctx, 0), sv.ctx[:len(sv.ctx)-1]}
			if len(sv.ctx) < ContextMaxSize {
				prev = append(prev, sv.ctx+"x")
			}
			ro := &Options{Hash: opts.Hash}
			for _, pc := range prev {
				ro.Context = pc
				priv.Sign(nil, msg, ro)
				ro.Context = sv.ctx
				sr, er := priv.Sign(nil, msg, ro)
				check("options-refilled", sr, er)
			}
		}
		if rec.calls != 0 {
			c.Violation("C02 entropy-read", "PrivateKey.Sign read from its entropy argument", map[string]interface{}{"calls": rec.calls})
		}
		if sv.v != ref.Ph && len(msg) == 0 {
			// a nil message is the empty message
			sn, en := priv.Sign(nil, nil, opts)
			check("options", sn, en)
			if ok, pv := implSingleOpts(triple{append([]byte{}, priv[32:]...), nil, want}, variantSpec{sv.v, sv.ctx}, false); !ok || pv != nil {
				c.Violation("C02 nil-message verify", "the signature over the empty message is not accepted for a nil message", map[string]interface{}{"seed": ref.Hex(seed), "variant": sv.v.String()})
			}
		}
		if sv.v == ref.Pure && len(msg) == 0 {
			check("helper", Sign(priv, nil), nil)
			if !Verify(PublicKey(priv[32:]), nil, want) || !Verify(PublicKey(priv[32:]), []byte{}, want) {
				c.Violation("C02 nil-message verify", "the signature over the empty message is not accepted for a nil / empty message", map[string]interface{}{"seed": ref.Hex(seed)})
			}
		}
		if sv.v == ref.Pure {
			check("helper", Sign(priv, msg), nil)
			s4, e4 := priv.Sign(rec, msg, crypto.Hash(0))
			check("hash0", s4, e4)
		}
		if sv.v == ref.Ph && sv.ctx == "" {
			s5, e5 := priv.Sign(rec, msg, crypto.SHA512)
			check("sha512", s5, e5)
			// any crypto.SignerOpts implementation selects the variant through HashFunc()
			s6, e6 := priv.Sign(rec, msg, customOpts{crypto.SHA512})
			check("custom-signeropts", s6, e6)
			s7, e7 := priv.Sign(rec, msg, &customOptsPtr{crypto.SHA512})
			check("custom-signeropts", s7, e7)
		}
		if sv.v == ref.Pure {
			s6, e6 := priv.Sign(rec, msg, customOpts{crypto.Hash(0)})
			check("custom-signeropts", s6, e6)
			s7, e7 := priv.Sign(rec, msg, &customOptsPtr{crypto.Hash(0)})
			check("custom-signeropts", s7, e7)
			func() {
				defer func() {
					if r := recover(); r != nil {
						c.Violation("C02 custom-signeropts panic", fmt.Sprintf("PrivateKey.Sign panicked on a caller-defined crypto.SignerOpts: %v", r), nil)
					}
				}()
				if _, e := priv.Sign(rec, msg, customOpts{crypto.SHA256}); e == nil {
					c.Violation("C02 custom-signeropts unsupported", "PrivateKey.Sign accepted a caller-defined SignerOpts selecting SHA-256", nil)
				}
			}()
		}
		if !bytes.Equal(priv, privCopy) || !bytes.Equal(msg, msgCopy) {
			c.Violation("C02 input-modified", "Sign modified its private key or message argument", map[string]interface{}{"seed": ref.Hex(seed)})
		}
		// the caller keeps seed and message in ONE buffer (a seed || message record; the seed slice
		// therefore has spare capacity that holds live data), derives the key from the front and signs
		// the rest - and afterwards scrubs the buffer: the signature over the message as it was, and
		// the key's later signatures, must still be the RFC 8032 ones for (seed, message)
		if k.si%8 == 0 {
			record := append(append(make([]byte, 0, 32+len(msg)+64), seed...), msg...)
			rk := NewKeyFromSeed(record[:32])
			rs, re := rk.Sign(nil, record[32:], opts)
			c.Class("style/record")
			check("record", rs, re)
			for i := range record {
				record[i] = 0
			}
			rs2, re2 := rk.Sign(nil, msg, opts)
			check("record-scrubbed", rs2, re2)
		}
		// GenerateKey -> the caller appends to the returned public key (an envelope pub || tag) -> Sign
		// with the private key of the same call
		if k.si%8 == 4 {
			gpub, gpriv, gerr := GenerateKey(bytes.NewReader(append([]byte{}, seed...)))
			if gerr == nil {
				_ = append(gpub, bytes.Repeat([]byte{0xEE}, 29)...)
				_ = append(gpub[:len(gpub):len(gpub)], 1) // (a capacity-clamped append never writes in place)
				gs, ge := gpriv.Sign(nil, msg, opts)
				c.Class("style/record")
				check("generatekey-envelope", gs, ge)
			}
		}
		if c.WantSample() && k.vi > 0 {
			c.Sample(map[string]interface{}{"seed": ref.Hex(seed), "msg_len": len(msg), "variant": sv.v.String(), "ctx_len": len(sv.ctx), "signature": ref.Hex(want)})
		}
	}
	// (5) dense lengths: EVERY message length 0..8320 (and windows around 16384, 32768, 65536) under
	// pure, a 1-byte and a 255-byte context - the hashed inputs dom2 || prefix || M and
	// dom2 || R || A || M then take every total length across 4096 and 8192 whatever the split between
	// context and message; plus the argument coincidences: the message is (or contains) the key, the
	// seed, a signature, the dom2 label, the context
	c.Require("dense-length", "coincidence")
	var dl []int
	for l := 0; l <= 8320; l++ {
		dl = append(dl, l)
	}
	for _, m := range []int{16384, 32768, 65536} {
		for l := m - 330; l <= m+40; l++ {
			dl = append(dl, l)
		}
	}
	// very long messages: every multiple of 2^18 up to 8 MiB (thorough: 24 MiB), with the lengths just
	// below and above it for every fourth, and decimal round numbers (piecewise hashing with a slice size
	// of its own: the last slice, the slice boundary, a length that is an exact multiple)
	if c.Config == "default" || c.Config == "" || c.Thorough() {
		top := 32
		if c.Thorough() {
			top = 96
		}
		for m := 1; m <= top; m++ {
			dl = append(dl, m<<18)
			if m%4 == 0 || m < 8 {
				dl = append(dl, m<<18-1, m<<18+1)
			}
		}
		dl = append(dl, 1000000, 2000000, 4000000, 5000000, 8000000, 3<<19, 3<<20, 5<<19, 5<<20, 7<<19)
	}
	dvars := []signVariant{{ref.Pure, ""}, {ref.Ctx, "c"}, {ref.Ctx, strings.Repeat("k", 255)}}
	signAndCompare := func(class, what string, seed, msg []byte, sv signVariant) {
		want := ref.Sign(seed, msg, sv.v, []byte(sv.ctx))
		priv := NewKeyFromSeed(seed)
		o := &Options{Context: sv.ctx}
		if sv.v == ref.Ph {
			o.Hash = crypto.SHA512
		}
		sig, err := priv.Sign(nil, msg, o)
		c.Step(1)
		c.Class(class)
		if err != nil || !bytes.Equal(sig, want) {
			c.Violation(fmt.Sprintf("C02 %s variant=%s", class, sv.v), fmt.Sprintf("signature differs from RFC 8032 5.1.6 (%s, msg len %d, %s, ctx len %d)", what, len(msg), sv.v, len(sv.ctx)),
				map[string]interface{}{"seed": ref.Hex(seed), "msg_len": len(msg), "msg_head": ref.Hex(msg[:minI(len(msg), 64)]), "ctx_len": len(sv.ctx), "variant": sv.v.String(), "expected": ref.Hex(want), "observed": ref.Hex(sig), "err": fmt.Sprint(err), "what": what})
			return
		}
		for _, zip := range []bool{false, true} {
			got, pv := implSingle(triple{priv[32:], msg, sig}, variantSpec{sv.v, sv.ctx}, zip)
			c.Step(1)
			if !got || pv != nil {
				c.Violation(fmt.Sprintf("C02 %s verify variant=%s", class, sv.v), fmt.Sprintf("the RFC 8032 signature is rejected (%s, msg len %d, %s, ctx len %d, zip215=%v)", what, len(msg), sv.v, len(sv.ctx), zip), map[string]interface{}{"seed": ref.Hex(seed), "msg_len": len(msg), "ctx_len": len(sv.ctx)})
			}
		}
	}
	for li, l := range dl {
		for vi, sv := range dvars {
			if l > 1<<17 && vi > 0 && (li+vi)%3 != 0 && !c.Thorough() {
				continue
			}
			if !c.Take() {
				continue
			}
			c.Distinct(fmt.Sprintf("dl %d %d", l, vi), true)
			signAndCompare("dense-length", "dense length sweep", seedOf(li%5), msgLen(l, li), sv)
		}
	}
	for si := 0; si < 3; si++ {
		seed := seedOf(si)
		pub := refPublic(si)
		sig0 := ref.Sign(seed, nil, ref.Pure, nil)
		cat := func(bs ...[]byte) []byte { return bytes.Join(bs, nil) }
		label := []byte("SigEd25519 no Ed25519 collisions")
		coinc := []struct {
			name string
			msg  []byte
		}{
			{"msg=public key", pub}, {"msg=seed", seed}, {"msg=private key", cat(seed, pub)}, {"msg=signature of empty", sig0},
			{"msg=R||A", cat(sig0[:32], pub)}, {"msg=sig||pub", cat(sig0, pub)}, {"msg=pub||pub", cat(pub, pub)}, {"msg=S half", sig0[32:]},
			{"msg=dom2 label", label}, {"msg=dom2(ctx,c)", ref.Dom2(ref.Ctx, []byte("c"))}, {"msg=dom2(ph,c)||64", cat(ref.Dom2(ref.Ph, []byte("c")), msgLen(64, 1))},
			{"msg=L", ref.ToLE(ref.L, 32)}, {"msg=base point", ref.Base().Encode()}, {"msg=32 zero bytes", make([]byte, 32)}, {"msg=64 zero bytes", make([]byte, 64)},
			{"msg=context", []byte("c")}, {"msg=sha512(seed)", func() []byte { h := sha512.Sum512(seed); return h[:] }()},
		}
		for ci, cc := range coinc {
			for vi, sv := range []signVariant{{ref.Pure, ""}, {ref.Ctx, "c"}, {ref.Ph, ""}, {ref.Ph, "c"}, {ref.Ctx, string(pub)}, {ref.Ctx, string(cc.msg[:minI(len(cc.msg), 255)])}} {
				if sv.v == ref.Ph && len(cc.msg) != 64 {
					continue
				}
				if sv.v == ref.Ctx && sv.ctx == "" {
					continue
				}
				if !c.Take() {
					continue
				}
				c.Distinct(fmt.Sprintf("co %d %d %d", si, ci, vi), true)
				signAndCompare("coincidence", cc.name, seed, cc.msg, sv)
			}
		}
	}
	// (5b) the context-length x message-length PLANE: every context length 1..255 with every message
	// length 0..320 (thorough: 0..1100) under Ed25519ctx - a buffer sized for "short context and short
	// message" has its corner inside the plane, away from the lines the one-dimensional sweeps follow
	c.Require("ctx-msg-plane")
	if c.Config == "default" || c.Config == "" || c.Thorough() {
		maxM := 320
		if c.Thorough() {
			maxM = 1100
		}
		for cl := 1; cl <= 255; cl++ {
			for ml0 := 0; ml0 <= maxM; ml0 += 16 {
				if !c.Take() {
					continue
				}
				c.Distinct(fmt.Sprintf("plane %d %d", cl, ml0), true)
				sv := signVariant{ref.Ctx, strings.Repeat("q", cl-1) + string([]byte{byte(cl)})}
				for ml := ml0; ml < ml0+16 && ml <= maxM; ml++ {
					signAndCompare("ctx-msg-plane", "context x message plane", seedOf((cl+ml)%5), msgLen(ml, cl), sv)
				}
			}
		}
	} else if c.Take() {
		c.Class("ctx-msg-plane")
		c.Distinct("plane skipped in this configuration (quick tier)", true)
	}
	// (6) held results: 70 signatures (and the keys of 70 NewKeyFromSeed calls) kept by the caller, each then
	// used as the caller's own buffer: every other one still reads as the RFC 8032 value
	c.Require("held-results")
	for g, sv := range []signVariant{{ref.Pure, ""}, {ref.Ctx, "held"}, {ref.Ph, ""}} {
		if !c.Take() {
			continue
		}
		c.Class("held-results")
		c.Distinct(fmt.Sprintf("held %d", g), true)
		var got, want [][]byte
		for i := 0; i < 70; i++ {
			seed := seedOf(7300 + i%5)
			msg := msgLen(64, i)
			o := &Options{Context: sv.ctx}
			if sv.v == ref.Ph {
				o.Hash = crypto.SHA512
			}
			k := NewKeyFromSeed(seed)
			sig, err := k.Sign(nil, msg, o)
			if err != nil {
				sig = nil
			}
			got = append(got, sig, k)
			want = append(want, ref.Sign(seed, msg, sv.v, []byte(sv.ctx)), append(append([]byte{}, seed...), refPublic(7300+i%5)...))
		}
		c.Step(70)
		if j, i := heldResults(got, want); j >= 0 {
			c.Violation("C02 held-results", fmt.Sprintf("result %d (signatures and keys alternate) changed or was wrong after the caller appended to result %d (%s)", j, i, sv.v), map[string]interface{}{"held": j, "appended_to": i, "variant": sv.v.String()})
		}
	}
	// (7) caller buffers refilled between calls: ONE 64-byte key buffer and one message buffer; key 1 signs,
	// the buffer is overwritten in place with key 2 (and the message buffer with another message), key 2
	// signs, key 1 again from a fresh slice, ... Every signature is the RFC 8032 one for the bytes passed
	// at that call (a memo of the last key expansion that keeps the caller's slice compares the buffer
	// with itself)
	c.Require("buffer-reuse")
	for g, sv := range []signVariant{{ref.Pure, ""}, {ref.Ctx, "reuse"}, {ref.Ph, "reuse"}} {
		if !c.Take() {
			continue
		}
		c.Class("buffer-reuse")
		c.Distinct(fmt.Sprintf("bufreuse %d", g), true)
		kb := make([]byte, 64)
		mb := make([]byte, 64)
		o := &Options{Context: sv.ctx}
		if sv.v == ref.Ph {
			o.Hash = crypto.SHA512
		}
		order := []int{0, 1, 0, 2, 2, 1, 3, 0, 3, 3, 1}
		for step, ki := range order {
			seed := seedOf(7400 + ki)
			full := append(append([]byte{}, seed...), refPublic(7400+ki)...)
			msg := msgLen(64, step%3)
			var priv PrivateKey
			switch step % 3 {
			case 0, 1: // through the shared buffers
				copy(kb, full)
				copy(mb, msg)
				priv = PrivateKey(kb)
				msg = mb
			default: // fresh slices holding the same bytes
				priv = PrivateKey(append([]byte{}, full...))
			}
			sig, err := priv.Sign(nil, msg, o)
			want := ref.Sign(seed, msg, sv.v, []byte(sv.ctx))
			c.Step(1)
			if err != nil || !bytes.Equal(sig, want) {
				c.Violation("C02 buffer-reuse", fmt.Sprintf("step %d (key %d, %s): the signature is not the RFC 8032 one for the key and message bytes passed at this call (the key buffer held another key before)", step, ki, sv.v),
					map[string]interface{}{"step": step, "key": ki, "variant": sv.v.String(), "expected": ref.Hex(want), "observed": ref.Hex(sig), "err": fmt.Sprint(err)})
				break
			}
			if step%4 == 3 {
				for i := range kb { // the caller wipes the key buffer between uses
					kb[i] = 0
				}
			}
		}
	}
}

// C03: every produced signature is accepted by every verifier.
func jobC03(c *rt.Ctx) {
	c.Require("single-default", "single-zip215", "batch-default", "batch-zip215", "batch-n>=129", "position-sweep")
	nseeds := 16
	if c.Thorough() {
		nseeds = 256
	}
	type vv struct {
		vs variantSpec
	}
	variants := []variantSpec{vPure, {ref.Ctx, "c"}, {ref.Ctx, strings.Repeat("x", 255)}, {ref.Ph, ""}, {ref.Ph, "ph-ctx"}, {ref.Ph, strings.Repeat("y", 255)}}
	// single verification + structural facts
	for si := 0; si < nseeds; si++ {
		for mi := 0; mi < 4; mi++ {
			for vi, vs := range variants {
				if !c.Take() {
					continue
				}
				idx := si
				if si == nseeds-1 {
					idx = -1
				}
				t := libTriple(idx, msgOf(mi, vs), vs)
				c.DistinctB(true, []byte("s"), t.key, t.sig, []byte{byte(vi)})
				S := ref.LE(t.sig[32:])
				A, okA := ref.Decode(t.key)
				R, okR := ref.Decode(t.sig[:32])
				if S.Cmp(ref.L) >= 0 || !okA || !okR || A.IsSmallOrder() || R.IsSmallOrder() {
					d := hexd(t)
					d["variant"] = vs.String()
					c.Violation("C03 structure", "produced signature has S >= L or small-order/undecodable R or public key", d)
				}
				for _, zip := range []bool{false, true} {
					got, pv := implSingle(t, vs, zip)
					c.Step(1)
					name := "single-default"
					if zip {
						name = "single-zip215"
					}
					c.Class(name)
					if !got || pv != nil {
						d := hexd(t)
						d["variant"], d["mode"], d["panic"] = vs.String(), name, fmt.Sprint(pv)
						c.Violation("C03 "+name+" variant="+vs.v.String(), "own signature rejected by "+name, d)
					}
				}
			}
		}
	}
	// the scalar half as sign() computes it, S = (r + h*a) mod L, on boundary triples (h, a, r) that
	// no seed / message can be steered to (they are hash outputs): S must equal the model's value, be
	// canonical, and be admissible for the verifiers' range check
	c.Require("sign-scalar-pipeline")
	{
		var bvals []*big.Int
		addb := func(x *big.Int) {
			if x.Sign() >= 0 && x.Cmp(ref.L) < 0 {
				bvals = append(bvals, x)
			}
		}
		for _, x := range []*big.Int{big.NewInt(0), big.NewInt(1), big.NewInt(2), badd(ref.L, -1), badd(ref.L, -2), new(big.Int).Rsh(ref.L, 1), badd(new(big.Int).Rsh(ref.L, 1), 1), pow2(252), badd(pow2(252), -1), a0, a1} {
			addb(x)
		}
		for _, j := range []uint{30, 56, 60, 90, 112, 120, 128, 149, 150, 151, 168, 180, 210, 224, 240, 251} {
			addb(pow2(j))
			addb(badd(pow2(j), -1))
			addb(new(big.Int).Sub(ref.L, pow2(j)))
		}
		c.Extra("pipeline_alphabet", int64(len(bvals)))
		for hi, hv := range bvals {
			if !c.Take() {
				continue
			}
			c.Class("sign-scalar-pipeline")
			c.Distinct(fmt.Sprintf("pipe %d", hi), true)
			for _, av := range bvals {
				for _, rv := range bvals {
					var hm, am, rm, S modm.Bignum256
					modm.Expand(&hm, ref.ToLE(hv, 32))
					modm.Expand(&am, ref.ToLE(av, 32))
					modm.Expand(&rm, ref.ToLE(rv, 32))
					modm.Mul(&S, &hm, &am)
					modm.Add(&S, &S, &rm)
					var out [32]byte
					modm.Contract(out[:], &S)
					c.Step(1)
					want := new(big.Int).Mul(hv, av)
					want.Add(want, rv)
					want.Mod(want, ref.L)
					if ref.LE(out[:]).Cmp(want) != 0 || !scMinimal(out[:]) {
						c.Violation("C03 sign-scalar-pipeline", fmt.Sprintf("S = (r + h a) mod L as sign() computes it is %x for h=%s a=%s r=%s; the canonical value is %s (a signature with this scalar half is rejected by every verifier)", out, hv, av, rv, want),
							map[string]interface{}{"h": hv.String(), "a": av.String(), "r": rv.String(), "observed": ref.Hex(out[:]), "expected": want.String()})
					}
				}
			}
		}
	}
	// message-length sweep: every length 0..300 and block/size boundaries up to 1 MiB, single verification in both modes
	var lens []int
	for l := 0; l <= 300; l++ {
		lens = append(lens, l)
	}
	lens = append(lens, 511, 512, 513, 1023, 1024, 1025, 4095, 4096, 8191, 8192, 65535, 65536, 65537, 1<<20)
	c.Require("msglen-sweep")
	for li, l := range lens {
		for vi, vs := range []variantSpec{vPure, vCtx} {
			if !c.Take() {
				continue
			}
			msg := msgLen(l, li)
			t := libTriple(4000+li%7, msg, vs)
			c.Class("msglen-sweep")
			c.Distinct(fmt.Sprintf("ml %d %d", l, vi), true)
			for _, zip := range []bool{false, true} {
				got, pv := implSingle(t, vs, zip)
				c.Step(1)
				if !got || pv != nil {
					c.Violation(fmt.Sprintf("C03 msglen-sweep variant=%s", vs.v), fmt.Sprintf("own signature over a %d-byte message rejected (%s, zip215=%v)", l, vs, zip), map[string]interface{}{"msg_len": l, "variant": vs.String(), "key": ref.Hex(t.key), "sig": ref.Hex(t.sig)})
				}
			}
			if l <= 300 && l%3 == 0 {
				entries := batchWith(t, 2, 5, vs)
				_, valid, err, bpv := implBatch(entries, vs, false, rt.NewRng(c.Seed, "c03ml"))
				c.Step(1)
				if bpv != nil || err != nil || len(valid) != 5 || !valid[2] {
					c.Violation(fmt.Sprintf("C03 msglen-sweep batch variant=%s", vs.v), fmt.Sprintf("own signature over a %d-byte message rejected as batch member", l), map[string]interface{}{"msg_len": l, "variant": vs.String()})
				}
			}
		}
	}
	// variant sequences: signatures under ctx and ph with the SAME context string made back to back (either
	// order, also pure in between), then traffic under another context, then all of them verified - single,
	// ZIP-215 and as members of a batch. What one variant leaves behind must not leak into the next.
	c.Require("variant-sequence")
	{
		seqs := [][]variantSpec{
			{{ref.Ctx, "shared"}, {ref.Ph, "shared"}}, {{ref.Ph, "shared"}, {ref.Ctx, "shared"}},
			{{ref.Ctx, "shared"}, vPure, {ref.Ph, "shared"}}, {{ref.Ph, ""}, {ref.Ctx, "shared"}, {ref.Ph, "shared"}, {ref.Ctx, "shared"}},
			{{ref.Ctx, "shared"}, {ref.Ctx, "shared2"}, {ref.Ph, "shared"}, {ref.Ph, "shared2"}},
		}
		for si, sq := range seqs {
			for traffic := 0; traffic < 2; traffic++ {
				if !c.Take() {
					continue
				}
				c.Class("variant-sequence")
				c.Distinct(fmt.Sprintf("varseq %d %d", si, traffic), true)
				digest := msgOf(0, vPh)
				var ts []triple
				for i, vs := range sq {
					ts = append(ts, libTriple(4300+i, digest, vs))
				}
				other := variantSpec{ref.Ctx, "other-traffic"}
				ot := modelTriple(4310, digest, other)
				for i, vs := range sq {
					for _, zip := range []bool{false, true} {
						if traffic == 1 {
							// a call under an unrelated context right before each verification: the verifier
							// starts from whatever THAT call left, not from what the signing sequence left
							implSingle(ot, other, false)
						}
						got, pv := implSingle(ts[i], vs, zip)
						_, valid, err, bpv := implBatch(batchWith(ts[i], 1, 5, vs), vs, zip, rt.NewRng(c.Seed, "varseq"))
						c.Step(2)
						if !got || pv != nil || err != nil || bpv != nil || len(valid) != 5 || !valid[1] {
							c.Violation(fmt.Sprintf("C03 variant-sequence variant=%s", vs.v), fmt.Sprintf("own signature number %d of the sequence %v (made under %s) rejected afterwards: single %v (panic %v), batch %v (err %v), zip215=%v", i, sq, vs, got, pv, valid, err, zip),
								map[string]interface{}{"sequence": fmt.Sprint(sq), "index": i, "zip215": zip})
						}
					}
				}
			}
		}
	}
	// calls in flight: k = 1..6, 8 batches of the library's OWN signatures (context "in-flight") are parked
	// inside their entropy readers while three other batches of own signatures (pure; ZIP-215; a third
	// context) run to completion; all of them - the parked ones after their release - accept every entry
	c.Require("calls-in-flight")
	for _, g := range []int{1, 16} {
		for _, k := range []int{1, 2, 3, 4, 5, 6, 8} {
			if !c.Take() {
				continue
			}
			c.Class("calls-in-flight")
			c.Distinct(fmt.Sprintf("inflight %d %d", g, k), true)
			old := runtime.GOMAXPROCS(g)
			pvs := variantSpec{ref.Ctx, "in-flight"}
			pe := make([][]triple, k)
			for i := range pe {
				for j := 0; j < 8; j++ {
					pe[i] = append(pe[i], libTriple(4100+j, []byte{byte(i), byte(j)}, pvs))
				}
			}
			type pres struct {
				all   bool
				valid []bool
				err   error
				pv    interface{}
			}
			results := make([]pres, k)
			entered := make(chan int, k)
			release := make(chan struct{})
			var wg sync.WaitGroup
			for i := 0; i < k; i++ {
				wg.Add(1)
				go func(i int) {
					defer wg.Done()
					rd := &parkingReader{entered: entered, release: release, id: i, r: rt.NewRng(c.Seed, fmt.Sprint("c03p", i))}
					a, v, e, pv := implBatchReader(pe[i], pvs, false, rd)
					results[i] = pres{a, v, e, pv}
				}(i)
			}
			for i := 0; i < k; i++ {
				<-entered
			}
			for mi, mv := range []variantSpec{vPure, vPure, {ref.Ctx, "third"}} {
				var es []triple
				for j := 0; j < 8+56*(mi%2); j++ {
					es = append(es, libTriple(4200+j%7, []byte{byte(mi), byte(j)}, mv))
				}
				all, valid, err, pv := implBatch(es, mv, mi == 1, rt.NewRng(c.Seed, "c03m"))
				c.Step(1)
				ok := pv == nil && err == nil && all && len(valid) == len(es)
				if !ok {
					c.Violation("C03 calls-in-flight main", fmt.Sprintf("a batch of own signatures (%s) rejected while %d other calls were in flight (GOMAXPROCS=%d): all=%v err=%v panic=%v", mv, k, g, all, err, pv), map[string]interface{}{"in_flight": k, "gomaxprocs": g})
				}
			}
			close(release)
			wg.Wait()
			for i, r := range results {
				ok := r.pv == nil && r.err == nil && r.all && len(r.valid) == 8
				if !ok {
					c.Violation("C03 calls-in-flight parked", fmt.Sprintf("a batch of own signatures under context %q that was in flight while other batches ran (%d calls in flight, GOMAXPROCS=%d) came back all=%v valid=%v err=%v panic=%v", pvs.ctx, k, g, r.all, r.valid, r.err, r.pv), map[string]interface{}{"in_flight": k, "gomaxprocs": g, "parked_call": i})
					break
				}
			}
			runtime.GOMAXPROCS(old)
		}
	}
	// a key derived from the front of a larger buffer (a 64-byte KDF output, a record) that the caller
	// wipes afterwards: its later signatures must verify under the public key it had when derived
	c.Require("key-from-wiped-buffer")
	for vi, vs := range []variantSpec{vPure, vCtx, vPh} {
		for _, capacity := range []int{32, 64, 96} {
			if !c.Take() {
				continue
			}
			c.Class("key-from-wiped-buffer")
			c.Distinct(fmt.Sprintf("wiped %d %d", vi, capacity), true)
			buf := make([]byte, capacity)
			copy(buf, seedOf(7100+vi))
			for i := 32; i < capacity; i++ {
				buf[i] = byte(i)
			}
			k := NewKeyFromSeed(buf[:32])
			pub := append([]byte{}, k.Public().(PublicKey)...)
			for i := range buf {
				buf[i] = 0
			}
			msg := msgOf(3, vs)
			sig, err := k.Sign(nil, msg, vs.opts(false))
			c.Step(2)
			t := triple{pub, msg, sig}
			ok, pv := false, interface{}(nil)
			if err == nil {
				ok, pv = implSingleOpts(t, vs, false)
			}
			if err != nil || !ok || pv != nil || !bytes.Equal(pub, ref.Public(seedOf(7100+vi))) {
				c.Violation("C03 key-from-wiped-buffer", fmt.Sprintf("key derived from a seed slice of capacity %d, buffer wiped afterwards: signature err=%v verifies=%v (%s)", capacity, err, ok, vs), map[string]interface{}{"capacity": capacity, "variant": vs.String()})
			}
		}
	}
	// the empty message handed over as a nil slice (Sign accepts it, so every verifier must): single
	// verification in both modes and a member of batches at the first / last positions of every chunk
	c.Require("nil-message")
	for vi, vs := range []variantSpec{vPure, vCtx} {
		for _, zip := range []bool{false, true} {
			if !c.Take() {
				continue
			}
			c.Class("nil-message")
			c.Distinct(fmt.Sprintf("nilmsg %d %v", vi, zip), true)
			k := NewKeyFromSeed(seedOf(7000 + vi))
			sig, err := k.Sign(nil, nil, vs.opts(false))
			if err != nil {
				c.Violation("C03 nil-message sign", fmt.Sprintf("Sign refuses a nil message: %v", err), nil)
				continue
			}
			t := triple{append([]byte{}, k[32:]...), nil, sig}
			if ok, pv := implSingleOpts(t, vs, zip); !ok || pv != nil {
				c.Violation("C03 nil-message single", fmt.Sprintf("own signature over the nil (= empty) message rejected by single verification (%s, zip215=%v)", vs, zip), map[string]interface{}{"variant": vs.String(), "panic": fmt.Sprint(pv)})
			}
			for _, n := range []int{3, 4, 70} {
				for _, pos := range []int{0, 2, 3, 5, 63, 64, 69} {
					if pos >= n {
						continue
					}
					entries := append([]triple{}, fillers(vs, n)...)
					entries[pos] = t
					all, valid, berr, bpv := implBatch(entries, vs, zip, rt.NewRng(c.Seed, "c03nil"))
					c.Step(1)
					bad := bpv != nil || berr != nil || !all || len(valid) != n
					for _, v := range valid {
						bad = bad || !v
					}
					if bad {
						c.Violation("C03 nil-message batch", fmt.Sprintf("own signature over the nil (= empty) message at position %d of %d: batch reported all=%v valid=%v err=%v", pos, n, all, valid, berr), map[string]interface{}{"variant": vs.String(), "zip215": zip, "pos": pos, "n": n})
					}
				}
			}
		}
	}
	// batches of n distinct honest signatures: every member position of that size at once
	sizes := []int{1, 2, 3, 4, 5, 7, 8, 63, 64, 65, 67, 68, 69, 127, 128, 129, 131, 200}
	for _, n := range sizes {
		for vi, vs := range variants {
			for _, zip := range []bool{false, true} {
				for ent := 0; ent < 2; ent++ {
					for rot := 0; rot < 2; rot++ {
						if !c.Take() {
							continue
						}
						entries := make([]triple, n)
						for i := range entries {
							s := (i*5 + rot*17 + vi) % 300
							entries[i] = libTriple(2000+s, msgOf(i+rot, vs), vs)
						}
						var rnd *rt.Rng
						if ent == 1 {
							rnd = rt.NewRng(c.Seed, fmt.Sprintf("c03-%d-%d", n, vi))
						}
						var all bool
						var valid []bool
						var err error
						var pv interface{}
						if ent == 0 {
							all, valid, err, pv = implBatchReader(entries, vs, zip, zeroReader{})
						} else {
							all, valid, err, pv = implBatch(entries, vs, zip, rnd)
						}
						c.Step(1)
						name := "batch-default"
						if zip {
							name = "batch-zip215"
						}
						c.Class(name)
						if n >= 129 {
							c.Class("batch-n>=129")
						}
						c.Distinct(fmt.Sprintf("b %d %d %v %d %d", n, vi, zip, ent, rot), true)
						bad := pv != nil || err != nil || !all || len(valid) != n
						for _, v := range valid {
							if !v {
								bad = true
							}
						}
						if bad {
							c.Violation(fmt.Sprintf("C03 %s n=%d", name, n), fmt.Sprintf("batch of %d own signatures (%s, entropy %d) reported all=%v valid=%v err=%v panic=%v", n, vs, ent, all, valid, err, pv),
								map[string]interface{}{"n": n, "variant": vs.String(), "zip215": zip, "entropy": ent, "valid": fmt.Sprint(valid)})
						}
						if c.WantSample() && n == 65 {
							c.Sample(map[string]interface{}{"batch_size": n, "variant": vs.String(), "zip215": zip, "entropy": [2]string{"zero", "drbg"}[ent], "all": all, "first_entry": hexd(entries[0])})
						}
					}
				}
			}
		}
	}
	// own signatures next to ONE malformed / invalid member elsewhere in the batch (any chunk): still accepted
	c.Require("mixed-batch")
	for _, n := range []int{5, 70, 133} {
		var poss []int
		for _, p := range []int{0, 1, 3, 5, 62, 63, 64, 65, 66, 69, 127, 128, 129, 132} {
			if p < n {
				poss = append(poss, p)
			}
		}
		for _, bp := range poss {
			for ki, kind := range []string{"sig63", "sig-nil", "key-nil", "key31", "R-bitflip", "S+L", "wrong-msg", "small-order-R", "undecodable-key"} {
				if !c.Take() {
					continue
				}
				vs := vAll[(bp+ki)%3]
				zip := (bp+ki)%2 == 1
				entries := make([]triple, n)
				for i := range entries {
					entries[i] = libTriple(6000+i%40, msgOf(i, vs), vs)
				}
				entries[bp] = mkEntry(kind, bp, vs)
				_, valid, err, pv := implBatch(entries, vs, zip, rt.NewRng(c.Seed, "c03mix"))
				c.Step(1)
				c.Class("mixed-batch")
				c.Distinct(fmt.Sprintf("mix %d %d %s", n, bp, kind), true)
				bad := pv != nil || err != nil || len(valid) != n
				where := -1
				if !bad {
					for i, v := range valid {
						if i != bp && !v {
							bad, where = true, i
						}
					}
				}
				if bad {
					c.Violation(fmt.Sprintf("C03 mixed-batch kind=%s", kind), fmt.Sprintf("batch of %d own signatures with one %s member at %d (%s, zip215=%v): own signature at %d rejected (err=%v panic=%v)", n, kind, bp, vs, zip, where, err, pv),
						map[string]interface{}{"n": n, "bad_pos": bp, "kind": kind, "rejected_pos": where, "variant": vs.String(), "zip215": zip})
				}
			}
		}
	}
	// one signature alone at every position of a size-5 and a size-65 batch of other signatures
	for _, n := range []int{5, 65} {
		for pos := 0; pos < n; pos++ {
			for vi, vs := range variants[:4] {
				if !c.Take() {
					continue
				}
				t := libTriple(3000+pos+vi, msgOf(pos, vs), vs)
				entries := batchWith(t, pos, n, vs)
				all, valid, err, pv := implBatch(entries, vs, pos%2 == 1, rt.NewRng(c.Seed, "c03p"))
				c.Step(1)
				c.Class("position-sweep")
				c.Distinct(fmt.Sprintf("p %d %d %d", n, pos, vi), true)
				for _, v := range valid {
					all = all && v
				}
				if pv != nil || err != nil || !all || len(valid) != n {
					c.Violation(fmt.Sprintf("C03 position-sweep n=%d", n), fmt.Sprintf("own signature at position %d of %d: all=%v valid=%v err=%v", pos, n, all, valid, err),
						map[string]interface{}{"n": n, "pos": pos, "variant": vs.String(), "entry": hexd(t)})
				}
			}
		}
	}
}

type zeroReader struct{}

func (zeroReader) Read(p []byte) (int, error) {
	for i := range p {
		p[i] = 0
	}
	return len(p), nil
}

func implBatchReader(entries []triple, vs variantSpec, zip bool, rd io.Reader) (all bool, valid []bool, err error, panicked interface{}) {
	defer func() {
		if r := recover(); r != nil {
			panicked = r
		}
	}()
	pubs, msgs, sigs, damage := layoutBatch(entries)
	all, valid, err = VerifyBatch(rd, pubs, msgs, sigs, vs.opts(zip))
	if d := damage(); d != "" && panicked == nil {
		panicked = "VerifyBatch modified caller memory: " + d
	}
	valid = ownResult(valid)
	return
}

// customOpts / customOptsPtr: caller-defined crypto.SignerOpts implementations (by value and by pointer).
type customOpts struct{ h crypto.Hash }

func (o customOpts) HashFunc() crypto.Hash { return o.h }

type customOptsPtr struct{ h crypto.Hash }

func (o *customOptsPtr) HashFunc() crypto.Hash { return o.h }

// flipByte returns s with byte i complemented in its lowest bit.
func flipByte(s string, i int) string {
	b := []byte(s)
	b[i] ^= 1
	return string(b)
}
