package ed25519

import (
	"sync"
	"runtime"
	"bytes"
	"strings"
	"crypto"
	"fmt"
	"io"
	"math/big"

	ref "github.com/oasisprotocol/ed25519/internal/zzverifref"
	rt "github.com/oasisprotocol/ed25519/internal/zzverifrt"
)

func init() {
	rt.Register("C06", jobC06)
	rt.Register("C06cpu", func(c *rt.Ctx) { jobCPU(c, "C06") })
	rt.Register("C17cpu", func(c *rt.Ctx) { jobCPU(c, "C17") })
}

// jobCPU runs in a process that was STARTED with a given number of usable processors (taskset; the
// unit's parameter cpus=N): runtime.NumCPU() - fixed at start-up - is what a library would size a worker
// pool by. Full chunks, chunk + remainder and two chunks, all-valid and with one bad entry at the
// first / middle / each of the last four positions and in the second chunk: per-entry results equal
// single verification and the model (C06); all-valid batches need no fallback and a bad entry is never
// accepted by the batch equation (C17).
func jobCPU(c *rt.Ctx, prop string) {
	c.Require("cpus")
	c.Extra("numcpu_seen_by_worker", int64(runtime.NumCPU()))
	shapes := []struct {
		n   int
		bad []int
	}{{64, nil}, {64, []int{0}}, {64, []int{31}}, {64, []int{60}}, {64, []int{61}}, {64, []int{62}}, {64, []int{63}}, {68, nil}, {68, []int{67}}, {128, []int{127}}, {130, []int{64, 129}}, {132, []int{128}}, {8, []int{7}}, {5, nil}}
	for si, sh := range shapes {
		for vi, vs := range vAll {
			for _, zip := range []bool{false, true} {
				if !c.Take() {
					continue
				}
				c.Class("cpus")
				c.Distinct(fmt.Sprintf("cpu %d %d %v", si, vi, zip), true)
				es := make([]triple, sh.n)
				ks := make([]string, sh.n)
				for i := range es {
					es[i], ks[i] = mkEntry("good", i, vs), "good"
				}
				for j, p := range sh.bad {
					k := c06Kinds[1+(si+j+vi)%4]
					es[p], ks[p] = mkEntry(k, p, vs), k
				}
				if prop == "C06" {
					checkBatch(c, fmt.Sprintf("cpus NumCPU=%d", runtime.NumCPU()), es, ks, vs, zip, (si+vi)%2, fmt.Sprintf("cpu-%d", si))
					continue
				}
				fallbacks := 0
				verifOnFallback = func(off, bs int) { fallbacks++ }
				all, valid, err, pv := implBatchReader(es, vs, zip, rt.NewRng(c.Seed, fmt.Sprint("cpu", si)))
				verifOnFallback = nil
				c.Step(1)
				bad := pv != nil || err != nil || len(valid) != sh.n
				isBad := map[int]bool{}
				for _, p := range sh.bad {
					isBad[p] = true
				}
				for i, v := range valid {
					bad = bad || v == isBad[i]
				}
				if len(sh.bad) == 0 && fallbacks != 0 {
					bad = true
				}
				if bad || (len(sh.bad) == 0 && !all) {
					c.Violation("C17 cpus batch equation", fmt.Sprintf("process started with %d usable processors: batch of %d (%s, zip215=%v) with bad entries at %v: valid=%v all=%v err=%v panic=%v fallbacks=%d (an all-valid batch must pass the equation, a bad entry must never)", runtime.NumCPU(), sh.n, vs, zip, sh.bad, valid, all, err, pv, fallbacks),
						map[string]interface{}{"numcpu": runtime.NumCPU(), "n": sh.n, "bad": fmt.Sprint(sh.bad)})
				}
			}
		}
	}
}

var c06Kinds = []string{"good", "wrong-msg", "R-bitflip", "S-bitflip", "key-bitflip", "S+L", "S-top-slice-valid", "small-order-key", "small-order-R", "undecodable-key", "undecodable-R", "key31", "key-nil", "sig63", "sig-nil", "bad-prehash-or-nil-msg", "mixed-order-valid", "sig65-zero", "sig96-zero"}

// entries that are valid signatures under ANOTHER variant / context than the batch's options
var c06CrossKinds = []string{"signed-as-pure", "signed-as-ctx-c", "signed-as-ctx-d", "signed-as-ph", "signed-as-ph-d", "model-signed-over-63-bytes", "model-signed-over-65-bytes", "model-signed-over-0-bytes"}

func crossSpec(kind string) variantSpec {
	switch kind {
	case "signed-as-pure":
		return vPure
	case "signed-as-ctx-c":
		return vCtx
	case "signed-as-ctx-d":
		return variantSpec{ref.Ctx, "d"}
	case "signed-as-ph":
		return vPh
	default:
		return variantSpec{ref.Ph, "d"}
	}
}

var (
	undecodableStr []byte
	c06Memo        = map[string]triple{}
)

func firstUndecodable() []byte {
	if undecodableStr == nil {
		for y := int64(2); ; y++ {
			b := ref.ToLE(big.NewInt(y), 32)
			if _, ok := ref.Decode(b); !ok {
				undecodableStr = b
				break
			}
		}
	}
	return undecodableStr
}

// mkEntry builds the slot-th entry of the given kind for an option set.
func mkEntry(kind string, slot int, vs variantSpec) triple {
	key := fmt.Sprintf("%s|%d|%s", kind, slot%24, vs)
	if t, ok := c06Memo[key]; ok {
		return t
	}
	s := slot % 24
	g := honestTriple(5000+s, msgOf(s, vs), vs)
	cp := func(b []byte) []byte { return append([]byte{}, b...) }
	t := triple{cp(g.key), cp(g.msg), cp(g.sig)}
	if len(kind) > 18 && kind[:18] == "model-signed-over-" {
		// a signature that satisfies the equation of the batch's own variant/context over a message of
		// the given length (made by the model: the library's signer refuses a pre-hash that is not 64
		// bytes). Valid for pure/ctx; for ph the entry must be reported false (wrong digest length).
		var n int
		fmt.Sscanf(kind[18:], "%d", &n)
		m := msgLen(n, s)
		seed := seedOf(5000 + s)
		t = triple{ref.Public(seed), m, ref.Sign(seed, m, vs.v, []byte(vs.ctx))}
		c06Memo[key] = t
		return t
	}
	if len(kind) > 10 && kind[:10] == "signed-as-" {
		// a genuine signature over a 64-byte message under another variant/context
		m := msgOf(s, vPh)
		e := honestTriple(5000+s, m, crossSpec(kind))
		t = triple{cp(e.key), cp(e.msg), cp(e.sig)}
		c06Memo[key] = t
		return t
	}
	switch kind {
	case "good":
	case "wrong-msg":
		t.msg = msgOf(s+1, vs)
		if vs.v != ref.Ph && len(t.msg) == len(g.msg) {
			t.msg = append(t.msg, 1)
		}
	case "R-bitflip":
		t.sig[s%32] ^= 1 << uint(s%8)
	case "S-bitflip":
		t.sig[32+s%31] ^= 1 << uint(s%8)
	case "key-bitflip":
		t.key[s%32] ^= 1 << uint(s%7)
	case "S+L":
		S := ref.LE(t.sig[32:])
		S.Add(S, ref.L)
		copy(t.sig[32:], ref.ToLE(S, 32))
	case "S-top-slice-valid":
		S := badd(ref.L, -int64(1+s))
		t.key = cp(ref.Encodings(ref.Torsion(s % 8))[0])
		t.sig = append(cp(ptOf(S, (s/8)%8).Encode()), ref.ToLE(S, 32)...)
	case "small-order-key":
		enc := ref.Encodings(ref.Torsion(s % 8))
		t.key = cp(enc[s%len(enc)])
		r := big.NewInt(int64(13 + s))
		t.sig = append(cp(ptOf(r, 0).Encode()), ref.ToLE(r, 32)...)
	case "small-order-R":
		enc := ref.Encodings(ref.Torsion(s % 8))
		R := enc[(s/8)%len(enc)]
		a, _ := ref.ExpandSeed(seedOf(5000 + s))
		h := ref.HashModL(ref.Dom2(vs.v, []byte(vs.ctx)), R, t.key, t.msg)
		S := new(big.Int).Mul(h, a)
		S.Mod(S, ref.L)
		t.sig = append(cp(R), ref.ToLE(S, 32)...)
	case "mixed-order-valid":
		// key = [a]B + T_i, R = [r]B + T_j with i, j != 0: accepted in both modes
		m := mkTriple(a0, 1+s%7, 0, big.NewInt(int64(100+s)), 1+(s/7)%7, 0, t.msg, vs)
		t = triple{cp(m.key), cp(m.msg), cp(m.sig)}
	case "undecodable-key":
		t.key = cp(firstUndecodable())
	case "undecodable-R":
		copy(t.sig[:32], firstUndecodable())
	case "key31":
		t.key = t.key[:31]
	case "key-nil":
		t.key = nil
	case "sig63":
		t.sig = t.sig[:63]
	case "sig-nil":
		t.sig = nil
	case "sig65-zero", "sig96-zero":
		// a valid signature followed by zero bytes: R and S read from the first 64 bytes satisfy the
		// equation, only the length says no
		n := 1
		if kind == "sig96-zero" {
			n = 32
		}
		t.sig = append(append([]byte{}, t.sig...), make([]byte, n)...)
	case "bad-prehash-or-nil-msg":
		if vs.v == ref.Ph {
			t.msg = t.msg[:63]
		} else {
			e := honestTriple(5000+s, []byte{}, vs)
			t = triple{cp(e.key), nil, cp(e.sig)} // nil message signed as the empty message: valid
		}
	default:
		panic("unknown kind " + kind)
	}
	c06Memo[key] = t
	return t
}

func expectEntry(t triple, vs variantSpec, zip bool) bool {
	if len(t.key) != 32 {
		return false
	}
	if vs.v == ref.Ph && len(t.msg) != 64 {
		return false
	}
	ok, _ := modelVerify(t, vs, zip)
	return ok
}

var singleMemo = map[string]bool{}

func implSingleNoPanic(t triple, vs variantSpec, zip bool) bool {
	k := fmt.Sprintf("%x|%x|%x|%s|%v", t.key, t.msg, t.sig, vs, zip)
	if v, ok := singleMemo[k]; ok {
		return v
	}
	ok, pv := implSingleOpts(t, vs, zip)
	if pv != nil {
		ok = false
	}
	singleMemo[k] = ok
	return ok
}

type counterReader struct{ n byte }

func (r *counterReader) Read(p []byte) (int, error) {
	for i := range p {
		r.n++
		p[i] = r.n
	}
	return len(p), nil
}

func c06Reader(c *rt.Ctx, ent int, label string) io.Reader {
	switch ent {
	case 0:
		return rt.NewRng(c.Seed, label)
	case 1:
		return rt.NewRng(c.Seed+1, label)
	case 2:
		return zeroReader{}
	case 3:
		return constReader(0xff)
	case 4:
		return &counterReader{}
	case 5:
		return &stutterReader{r: rt.NewRng(c.Seed, label), k: 1}
	case 6:
		return &stutterReader{r: rt.NewRng(c.Seed, label), k: 16}
	case 7:
		return &stutterReader{r: rt.NewRng(c.Seed, label), k: 17}
	case 8:
		return &stutterReader{r: rt.NewRng(c.Seed, label), k: 100}
	default:
		return &stutterReader{r: rt.NewRng(c.Seed, label), k: 1000}
	}
}

// stutterReader is an entropy source that never fails but answers a request with at most k bytes
// per call (as a pipe, a socket or a rate-limited device does).
type stutterReader struct {
	r io.Reader
	k int
}

func (s *stutterReader) Read(p []byte) (int, error) {
	n := len(p)
	if n > s.k {
		n = s.k
	}
	s.r.Read(p[:n])
	return n, nil
}

// checkBatch runs one batch and compares every entry with the model and with the implementation's
// own single verification.
func checkBatch(c *rt.Ctx, what string, entries []triple, kinds []string, vs variantSpec, zip bool, ent int, label string) {
	fallbacks := 0
	verifOnFallback = func(off, bs int) { fallbacks++ }
	all, valid, err, pv := implBatchReader(entries, vs, zip, c06Reader(c, ent, label))
	verifOnFallback = nil
	c.Step(1)
	c.Extra("fallbacks_observed", int64(fallbacks))
	n := len(entries)
	bad := ""
	badIdx := -1
	if pv != nil {
		bad = fmt.Sprintf("panic: %v", pv)
	} else if err != nil {
		bad = fmt.Sprintf("error: %v", err)
	} else if len(valid) != n {
		bad = fmt.Sprintf("result vector has %d elements for %d entries", len(valid), n)
	} else {
		and := true
		for i, e := range entries {
			want := expectEntry(e, vs, zip)
			c.Step(1)
			if s := implSingleNoPanic(e, vs, zip); s != want {
				bad = fmt.Sprintf("single verification of entry %d (%s) = %v, model says %v", i, kinds[i], s, want)
				badIdx = i
				break
			}
			if valid[i] != want {
				bad = fmt.Sprintf("entry %d (%s): batch says %v, single verification and model say %v", i, kinds[i], valid[i], want)
				badIdx = i
				break
			}
			and = and && valid[i]
		}
		if bad == "" && all != and {
			bad = fmt.Sprintf("summary flag %v is not the conjunction %v", all, and)
		}
	}
	if bad != "" {
		kind := "-"
		if badIdx >= 0 {
			kind = kinds[badIdx]
		}
		var ks []string
		for i, k := range kinds {
			if k != "good" {
				ks = append(ks, fmt.Sprintf("%d:%s", i, k))
			}
		}
		d := map[string]interface{}{"n": n, "variant": vs.String(), "zip215": zip, "entropy": ent, "bad_entries": ks, "valid": fmt.Sprint(valid), "all": all, "fallbacks": fallbacks, "entry_index": badIdx}
		if badIdx >= 0 {
			d["entry"] = hexd(entries[badIdx])
		}
		c.Violation(fmt.Sprintf("C06 %s kind=%s", what, kind), fmt.Sprintf("VerifyBatch n=%d (%s, zip215=%v, entropy %d): %s", n, vs, zip, ent, bad), d)
	}
}

func jobC06(c *rt.Ctx) {
	c.Require("level0", "level1", "entropy-answers", "level2", "chunkseq", "unsupported-hash", "kind/S+L", "kind/S-top-slice-valid", "kind/small-order-R", "kind/key-nil", "kind/bad-prehash-or-nil-msg")
	type optset struct {
		vs  variantSpec
		zip bool
	}
	var opts []optset
	for _, vs := range vAll {
		opts = append(opts, optset{vs, false}, optset{vs, true})
	}
	// maximum-length contexts (the dom2 prefix is then 289 bytes)
	opts = append(opts, optset{vSpace[3], false}, optset{vSpace[4], true})
	sizes := []int{0, 1, 2, 3, 4, 5, 6, 7, 8, 9, 62, 63, 64, 65, 66, 67, 68, 69, 126, 127, 128, 129, 130, 131, 192, 193, 200}
	interesting := func(n int) []int {
		m := map[int]bool{}
		var out []int
		for _, p := range []int{0, 1, 2, 3, 61, 62, 63, 64, 65, 66, 67, 125, 126, 127, 128, 129, 130, 131, n - 4, n - 3, n - 2, n - 1} {
			if p >= 0 && p < n && !m[p] {
				m[p] = true
				out = append(out, p)
			}
		}
		return out
	}
	build := func(n int, bad map[int]string, vs variantSpec) ([]triple, []string) {
		es := make([]triple, n)
		ks := make([]string, n)
		for i := 0; i < n; i++ {
			k := "good"
			if b, ok := bad[i]; ok {
				k = b
			}
			es[i], ks[i] = mkEntry(k, i, vs), k
		}
		return es, ks
	}
	// level 0: all-good batches of every listed size x every option set x 5 entropy streams
	for _, n := range sizes {
		for oi, o := range opts {
			for ent := 0; ent < 5; ent++ {
				if !c.Take() {
					continue
				}
				es, ks := build(n, nil, o.vs)
				c.Class("level0")
				c.Distinct(fmt.Sprintf("l0 %d %d %d", n, oi, ent), n > 0)
				checkBatch(c, "level0", es, ks, o.vs, o.zip, ent, fmt.Sprintf("l0-%d", n))
			}
		}
	}
	// level 1: one bad entry
	for _, n := range sizes {
		var poss []int
		if n <= 9 {
			for p := 0; p < n; p++ {
				poss = append(poss, p)
			}
		} else {
			poss = interesting(n)
		}
		for _, p := range poss {
			for ki, kind := range c06Kinds[1:] {
				for oi, o := range opts {
					if n > 9 && !c.Thorough() && (n+p+ki)%len(opts) != oi {
						continue
					}
					if !c.Take() {
						continue
					}
					es, ks := build(n, map[int]string{p: kind}, o.vs)
					c.Class("level1")
					c.Class("kind/" + kind)
					c.Distinct(fmt.Sprintf("l1 %d %d %s %d", n, p, kind, oi), true)
					if c.WantSample() && n == 65 {
						c.Sample(map[string]interface{}{"n": n, "bad_position": p, "kind": kind, "variant": o.vs.String(), "zip215": o.zip, "entry": hexd(es[p])})
					}
					checkBatch(c, "level1", es, ks, o.vs, o.zip, (n+p)%2, fmt.Sprintf("l1-%d-%d", n, p))
				}
			}
		}
	}
	// level 1e: environment answers of the entropy reader (short reads of 1, 16, 17, 100, 1000 bytes per call) x at most one bad entry: the randomisers of every entry must still be
	// drawn, so the verdicts cannot change
	for _, n := range []int{4, 5, 8, 64, 68, 130} {
		for _, p := range []int{-1, 0, 1, n - 1, 63, 64, 65} {
			if p >= n {
				continue
			}
			for ent := 5; ent <= 9; ent++ {
				for ki, kind := range []string{c06Kinds[1], c06Kinds[2]} {
					if p < 0 && ki > 0 {
						continue
					}
					if !c.Take() {
						continue
					}
					bad := map[int]string{}
					if p >= 0 {
						bad[p] = kind
					}
					o := opts[(n+p+ent)%len(opts)]
					es, ks := build(n, bad, o.vs)
					c.Class("level1")
					c.Class("entropy-answers")
					c.Distinct(fmt.Sprintf("l1e %d %d %d %s", n, p, ent, kind), true)
					checkBatch(c, "level1e", es, ks, o.vs, o.zip, ent, fmt.Sprintf("l1e-%d-%d", n, p))
				}
			}
		}
	}
	// level 1b: one entry that is a genuine signature under another variant/context, or (model-made)
	// over a message of a length the pre-hash variant must refuse
	for _, n := range []int{4, 5, 9, 64, 68, 130} {
		for _, p := range []int{0, 2, n - 1, 63, 65} {
			if p >= n || p < 0 {
				continue
			}
			for ki, kind := range c06CrossKinds {
				for oi, o := range opts {
					if !c.Thorough() && (n+p+ki)%len(opts) != oi && o.vs.v != ref.Ph {
						continue
					}
					if !c.Take() {
						continue
					}
					es, ks := build(n, map[int]string{p: kind}, o.vs)
					c.Class("level1")
					c.Class("kind/" + kind)
					c.Distinct(fmt.Sprintf("l1b %d %d %s %d", n, p, kind, oi), true)
					checkBatch(c, "level1", es, ks, o.vs, o.zip, (n+p)%2, fmt.Sprintf("l1b-%d-%d", n, p))
				}
			}
		}
	}
	// level 2: two bad entries
	for _, n := range sizes {
		var poss []int
		switch {
		case n <= 8:
			for p := 0; p < n; p++ {
				poss = append(poss, p)
			}
		case c.Thorough():
			poss = interesting(n)
		case n == 64 || n == 65 || n == 68 || n == 128 || n == 130:
			for _, p := range []int{0, 3, 63, 64, n - 1} {
				if p < n {
					poss = append(poss, p)
				}
			}
		}
		for ai := 0; ai < len(poss); ai++ {
			for bi := ai + 1; bi < len(poss); bi++ {
				for k1, kind1 := range c06Kinds[1:] {
					for k2, kind2 := range c06Kinds[1:] {
						if n > 8 && (k1*5+poss[ai]+poss[bi])%15 != k2 {
							continue
						}
						if n <= 8 && !c.Thorough() && (k1+k2+n)%3 != 0 {
							continue
						}
						if !c.Take() {
							continue
						}
						o := opts[(n+poss[ai]+k1+2*k2)%len(opts)]
						es, ks := build(n, map[int]string{poss[ai]: kind1, poss[bi]: kind2}, o.vs)
						c.Class("level2")
						c.Distinct(fmt.Sprintf("l2 %d %d %d %s %s", n, poss[ai], poss[bi], kind1, kind2), true)
						checkBatch(c, "level2", es, ks, o.vs, o.zip, k1%2, fmt.Sprintf("l2-%d", n))
					}
				}
			}
		}
	}
	// level 3 (thorough): three bad entries for n <= 8, kinds rotated
	if c.Thorough() {
		for n := 3; n <= 8; n++ {
			for a := 0; a < n; a++ {
				for b := a + 1; b < n; b++ {
					for d := b + 1; d < n; d++ {
						for k1, kind1 := range c06Kinds[1:] {
							for k2, kind2 := range c06Kinds[1:] {
								if !c.Take() {
									continue
								}
								kind3 := c06Kinds[1+(k1*7+k2*3+a+b+d)%15]
								o := opts[(n+a+k1+k2)%len(opts)]
								es, ks := build(n, map[int]string{a: kind1, b: kind2, d: kind3}, o.vs)
								c.Class("level3")
								c.Distinct(fmt.Sprintf("l3 %d %d %d %d %s %s", n, a, b, d, kind1, kind2), true)
								checkBatch(c, "level3", es, ks, o.vs, o.zip, k2%2, fmt.Sprintf("l3-%d", n))
							}
						}
					}
				}
			}
		}
	}
	// homogeneous chunks: EVERY entry of a chunk is bad in the same way (no valid entry forces the
	// equation to fail, so the chunk is decided by the batch equation alone), incl. entries that are
	// genuine signatures under another variant / context
	c.Require("homogeneous")
	hk := append(append([]string{}, c06Kinds[1:]...), c06CrossKinds...)
	for _, n := range []int{4, 5, 8, 64, 68, 132} {
		for ki, kind := range hk {
			for oi, o := range opts {
				if n > 8 && !c.Thorough() && (ki+n)%len(opts) != oi {
					continue
				}
				for where := 0; where < 2; where++ {
					if where == 1 && n < 68 {
						continue
					}
					if !c.Take() {
						continue
					}
					bad := map[int]string{}
					lo, hi := 0, n
					if where == 1 {
						lo = 64 // only the last batched chunk is homogeneous, the first is all good
					}
					if n >= 68 && where == 0 {
						hi = 64
					}
					for i := lo; i < hi; i++ {
						bad[i] = kind
					}
					es, ks := build(n, bad, o.vs)
					c.Class("homogeneous")
					c.Distinct(fmt.Sprintf("hom %d %s %d %d", n, kind, oi, where), true)
					checkBatch(c, "homogeneous", es, ks, o.vs, o.zip, (n+ki)%2, fmt.Sprintf("hom-%d-%d", n, ki))
				}
			}
		}
	}
	// runs: ONE bad entry repeated over a range of positions (identical key, message and signature),
	// in particular across a chunk boundary
	c.Require("runs")
	type run struct{ n, lo, hi int }
	for _, r := range []run{{8, 0, 8}, {8, 2, 6}, {70, 60, 70}, {70, 62, 68}, {70, 64, 70}, {72, 63, 72}, {132, 126, 132}, {132, 120, 132}, {68, 0, 68}} {
		for ki, kind := range hk {
			for oi, o := range opts {
				if !c.Thorough() && (ki+r.lo)%len(opts) != oi {
					continue
				}
				if !c.Take() {
					continue
				}
				es, ks := build(r.n, nil, o.vs)
				one := mkEntry(kind, r.lo, o.vs)
				for i := r.lo; i < r.hi; i++ {
					es[i], ks[i] = one, kind
				}
				c.Class("runs")
				c.Distinct(fmt.Sprintf("run %v %s %d", r, kind, oi), true)
				checkBatch(c, "runs", es, ks, o.vs, o.zip, ki%2, fmt.Sprintf("run-%d-%d", r.n, ki))
			}
		}
	}
	// unsupported hash selector: every entry reports false, no error
	for _, n := range []int{0, 1, 3, 4, 5, 64, 65, 70} {
		if !c.Take() {
			continue
		}
		es, _ := build(n, nil, vPure)
		pubs, msgs, sigs := make([]PublicKey, n), make([][]byte, n), make([][]byte, n)
		for i, e := range es {
			pubs[i], msgs[i], sigs[i] = e.key, e.msg, e.sig
		}
		all, valid, err := VerifyBatch(rt.NewRng(c.Seed, "uh"), pubs, msgs, sigs, &Options{Hash: crypto.SHA256})
		c.Step(1)
		c.Class("unsupported-hash")
		c.Distinct(fmt.Sprintf("uh %d", n), true)
		bad := err != nil || len(valid) != n || all != (n == 0)
		for _, v := range valid {
			if v {
				bad = true
			}
		}
		if bad {
			c.Violation("C06 unsupported-hash", fmt.Sprintf("VerifyBatch with unsupported hash selector, n=%d: all=%v valid=%v err=%v (want every entry false, no error)", n, all, valid, err), map[string]interface{}{"n": n})
		}
	}
	// chunk sequences (E2): up to 3 full chunks + remainder; state carried between chunks must not matter
	chunkKinds := []string{"all-good", "one-S+L", "bad-sig@17", "malformed-key@63", "small-order-R@0", "bad-prehash@40", "short-sig@0"}
	mkChunk := func(kind string, base int, vs variantSpec) ([]triple, []string) {
		bad := map[int]string{}
		switch kind {
		case "one-S+L":
			bad[9] = "S+L"
		case "bad-sig@17":
			bad[17] = "R-bitflip"
		case "malformed-key@63":
			bad[63] = "key31"
		case "small-order-R@0":
			bad[0] = "small-order-R"
		case "bad-prehash@40":
			bad[40] = "bad-prehash-or-nil-msg"
			if vs.v != ref.Ph {
				bad[40] = "wrong-msg"
			}
		case "short-sig@0":
			bad[0] = "sig63"
		}
		es := make([]triple, 64)
		ks := make([]string, 64)
		for i := 0; i < 64; i++ {
			k := "good"
			if b, ok := bad[i]; ok {
				k = b
			}
			es[i], ks[i] = mkEntry(k, base+i, vs), k
		}
		return es, ks
	}
	var seqs [][]int
	for a := 0; a < 7; a++ {
		seqs = append(seqs, []int{a})
		for b := 0; b < 7; b++ {
			seqs = append(seqs, []int{a, b})
			for d := 0; d < 7; d++ {
				seqs = append(seqs, []int{a, b, d})
			}
		}
	}
	seqOpts := []optset{{vPure, false}, {vCtx, true}, {vPh, false}}
	for si, seq := range seqs {
		for r := 0; r < 4; r++ {
			for rk := 0; rk < 2; rk++ {
				if !c.Thorough() && len(seq) == 3 && !(r == 1 && rk == 0) {
					continue
				}
				if r == 0 && rk == 1 {
					continue
				}
				if !c.Take() {
					continue
				}
				o := seqOpts[(si+r)%3]
				var es []triple
				var ks []string
				for ci, ck := range seq {
					ce, ck2 := mkChunk(chunkKinds[ck], ci*5, o.vs)
					es = append(es, ce...)
					ks = append(ks, ck2...)
				}
				for i := 0; i < r; i++ {
					k := "good"
					if rk == 1 && i == r-1 {
						k = "S-bitflip"
					}
					es = append(es, mkEntry(k, 200+i, o.vs))
					ks = append(ks, k)
				}
				c.Class("chunkseq")
				c.Distinct(fmt.Sprintf("cs %v %d %d", seq, r, rk), true)
				if c.WantSample() && len(seq) == 2 {
					var names []string
					for _, k := range seq {
						names = append(names, chunkKinds[k])
					}
					c.Sample(map[string]interface{}{"chunk_sequence": names, "remainder": r, "remainder_bad": rk == 1, "variant": o.vs.String(), "zip215": o.zip, "n": len(es)})
				}
				checkBatch(c, "chunkseq", es, ks, o.vs, o.zip, si%2, fmt.Sprintf("cs-%d", si))
				// differential: the last chunk run as the first chunk of a fresh call gives the same sub-vector
				if len(seq) >= 2 {
					last := len(seq) - 1
					sub := es[64*last : 64*last+64]
					_, vFull, _, _ := implBatchReader(es, o.vs, o.zip, c06Reader(c, 0, "d"))
					_, vSolo, _, _ := implBatchReader(sub, o.vs, o.zip, c06Reader(c, 0, "d"))
					c.Step(2)
					same := len(vFull) == len(es) && len(vSolo) == 64
					if same {
						for i := 0; i < 64; i++ {
							if vFull[64*last+i] != vSolo[i] {
								same = false
							}
						}
					}
					if !same {
						c.Violation("C06 chunkseq differential", fmt.Sprintf("chunk %d of sequence %v reports differently than the same chunk as the first chunk of a fresh call", last, seq), map[string]interface{}{"sequence": fmt.Sprint(seq)})
					}
				}
			}
		}
	}
	// level big: batch sizes around the widths of small integer types and well beyond the chunk length
	// (255, 256, 257, 320, 1024, ...; thorough: 4099 and 65537 entries), bad entries at the positions
	// where an index, a counter or an offset of such a width would wrap
	c.Require("level-big")
	bigSizes := []int{255, 256, 257, 320, 511, 513, 1024, 1025}
	if c.Thorough() {
		bigSizes = append(bigSizes, 2049, 4099, 65537)
	}
	for bi, n := range bigSizes {
		var sets [][]int
		sets = append(sets, nil, []int{0}, []int{n - 1}, []int{255 % n}, []int{0, n - 1})
		if n > 256 {
			sets = append(sets, []int{256}, []int{255, 256}, []int{0, 256}, []int{n - 1 - 256})
		}
		if n > 1024 {
			sets = append(sets, []int{1024}, []int{1023, n - 1})
		}
		if n > 65536 {
			sets = append(sets, []int{65536}, []int{0, 65536}, []int{65535})
		}
		for si, set := range sets {
			for oi, o := range opts {
				if (bi+si)%len(opts) != oi && !(c.Thorough() && n <= 1025) {
					continue
				}
				if !c.Take() {
					continue
				}
				bad := map[int]string{}
				for j, p := range set {
					bad[p] = c06Kinds[1+(bi+si+j+oi)%5] // wrong-msg, R/S/key bit flips, S+L
				}
				es, ks := build(n, bad, o.vs)
				c.Class("level-big")
				c.Distinct(fmt.Sprintf("big %d %d %d", n, si, oi), true)
				ent := (bi + si) % 2 // streams standing for "uniformly random" when some entry is invalid
				if len(set) == 0 {
					ent = (bi + oi) % 5 // all valid: every stream, including the constant ones
				}
				checkBatch(c, "level-big", es, ks, o.vs, o.zip, ent, fmt.Sprintf("big-%d-%d", n, si))
			}
		}
	}
	// level dense-len: for EVERY length P in 0..8320 (and windows around 16384, 32768, 65536) a batch of
	// short honest entries plus one entry whose signature is valid for the first P bytes of its message
	// and whose message has P+1 bytes (odd P: P+32 bytes) - and the honest P-byte entry itself. However
	// the batch path buffers R || A || M, it must judge the entry as single verification does.
	c.Require("level-dense-len")
	var dl []int
	for l := 0; l <= 8320; l++ {
		dl = append(dl, l)
	}
	for _, m := range []int{16384, 32768, 65536} {
		for l := m - 330; l <= m+40; l++ {
			dl = append(dl, l)
		}
	}
	for li, l := range dl {
		for vi, vs := range []variantSpec{vPure, vCtx, {ref.Ctx, strings.Repeat("k", 255)}} {
			if !c.Thorough() && vi > 0 && (l+vi)%2 == 0 {
				continue
			}
			if !c.Take() {
				continue
			}
			seed := seedOf(900 + li%5)
			msg := msgLen(l, li)
			honest := triple{ref.Public(seed), msg, ref.Sign(seed, msg, vs.v, []byte(vs.ctx))}
			ext := 1
			if l%2 == 1 {
				ext = 32
			}
			longer := triple{honest.key, append(append([]byte{}, msg...), msgLen(ext, l)...), honest.sig}
			// the neighbours carry one-byte messages: a neighbour that the same buffering got wrong would
			// send the chunk to the fallback and hide the entry under test
			es, ks := make([]triple, 5), []string{"good", "good", "good", "good", "good"}
			for i := range es {
				es[i] = honestTriple(5100+i, []byte{byte(i)}, vs)
			}
			es[li%5], ks[li%5] = longer, "signed-prefix"
			if li%5 != 2 {
				es[2], ks[2] = honest, "good"
			}
			c.Class("level-dense-len")
			c.Distinct(fmt.Sprintf("dlen %d %d", l, vi), true)
			checkBatch(c, "level-dense-len", es, ks, vs, li%2 == 1, li%2, fmt.Sprintf("dlen-%d", l))
		}
	}
	// level near-dup: neighbours that share all but one component. entries[p] is an honest entry and
	// entries[p+1] the SAME entry with one component spoilt (or the other way round; or the spoilt entry
	// twice; or every entry of the batch the same spoilt entry), with and without an unrelated bad entry
	// elsewhere in the chunk (which sends the chunk to the per-signature fallback). Shortcuts keyed on
	// "same as the previous entry" (same key, same R || A || M hash, same signature bytes) must not
	// carry a verdict over.
	c.Require("level-near-dup")
	allKinds := append(append([]string{}, c06Kinds[1:]...), c06CrossKinds...)
	for _, n := range []int{4, 8, 68, 70, 132} {
		var ps []int
		for _, p := range []int{0, 2, n - 2, 62, 63, 64, 66, 127, 128} {
			if p >= 0 && p+1 < n {
				ps = append(ps, p)
			}
		}
		for pi, p := range ps {
			for ki, kind := range allKinds {
				for form := 0; form < 5; form++ {
					for force := 0; force < 2; force++ {
						oi := (pi + ki + form + force + n) % len(opts)
						if !c.Thorough() && (ki+pi+form+force)%3 != 0 && n > 8 {
							continue
						}
						if form == 4 && (pi > 0 || force > 0) {
							continue
						}
						if !c.Take() {
							continue
						}
						o := opts[oi]
						es, ks := build(n, nil, o.vs)
						spoilt := mkEntry(kind, p, o.vs)
						switch form {
						case 0: // honest, then its spoilt copy
							es[p+1], ks[p+1] = spoilt, kind
						case 1: // spoilt copy, then the honest entry
							es[p+1], ks[p+1] = es[p], "good"
							es[p], ks[p] = spoilt, kind
						case 2: // the spoilt entry twice
							es[p], ks[p] = spoilt, kind
							es[p+1], ks[p+1] = spoilt, kind
						case 3: // honest, honest copy, spoilt copy
							es[p+1], ks[p+1] = es[p], "good"
							if p+2 < n {
								es[p+2], ks[p+2] = spoilt, kind
							}
						case 4: // every entry the same spoilt entry
							for i := range es {
								es[i], ks[i] = spoilt, kind
							}
						}
						if force == 1 {
							q := (p + 5) % n
							if q/64 != p/64 || q == p || q == p+1 || q == p+2 {
								q = (p/64)*64 + (p%64+9)%minI(64, n-(p/64)*64)
							}
							if q != p && q != p+1 && q != p+2 {
								es[q], ks[q] = mkEntry("wrong-msg", q, o.vs), "wrong-msg"
							}
						}
						c.Class("level-near-dup")
						c.Distinct(fmt.Sprintf("nd %d %d %d %d %d", n, p, ki, form, force), true)
						checkBatch(c, "level-near-dup", es, ks, o.vs, o.zip, (n+p+ki)%2, fmt.Sprintf("nd-%d-%d", n, p))
					}
				}
			}
		}
	}
	// level crossed: an entry that would satisfy the equation under a MIXED-UP reading - the point of the
	// previous / next / first entry's key (or the base point, or the neutral element) with its own key
	// bytes in the hash; its own key with the neighbour's message in the hash; a key that differs from
	// the neighbour's in the sign bit or in the top bits of byte 0 only. Shortcuts that reuse a
	// decompressed point or a hash for "the same" key / entry must agree with single verification.
	c.Require("level-crossed")
	type crossKind struct {
		name string
		mk   func(es []triple, p int, vs variantSpec) triple
	}
	scalarOfSlot := func(slot int) *big.Int {
		a, _ := ref.ExpandSeed(seedOf(5000 + slot%24))
		return a
	}
	flip := func(k []byte, byteIx int, mask byte) []byte {
		o := append([]byte{}, k...)
		o[byteIx] ^= mask
		return o
	}
	crossKinds := []crossKind{
		{"prev-point/own-key-bytes", func(es []triple, p int, vs variantSpec) triple {
			return crossTriple(scalarOfSlot(p-1), es[p].key, es[p].msg, es[p].msg, int64(p), vs)
		}},
		{"prev-point/prev-key-sign-flipped", func(es []triple, p int, vs variantSpec) triple {
			return crossTriple(scalarOfSlot(p-1), flip(es[p-1].key, 31, 0x80), es[p].msg, es[p].msg, int64(p), vs)
		}},
		{"prev-point/prev-key-byte0-bit6", func(es []triple, p int, vs variantSpec) triple {
			return crossTriple(scalarOfSlot(p-1), flip(es[p-1].key, 0, 0x40), es[p].msg, es[p].msg, int64(p), vs)
		}},
		{"prev-point/prev-key-byte0-bit7", func(es []triple, p int, vs variantSpec) triple {
			return crossTriple(scalarOfSlot(p-1), flip(es[p-1].key, 0, 0x80), es[p].msg, es[p].msg, int64(p), vs)
		}},
		{"prev-point/prev-key-byte31-bit0", func(es []triple, p int, vs variantSpec) triple {
			return crossTriple(scalarOfSlot(p-1), flip(es[p-1].key, 31, 0x01), es[p].msg, es[p].msg, int64(p), vs)
		}},
		{"next-point/own-key-bytes", func(es []triple, p int, vs variantSpec) triple {
			return crossTriple(scalarOfSlot(p+1), es[p].key, es[p].msg, es[p].msg, int64(p), vs)
		}},
		{"first-point/own-key-bytes", func(es []triple, p int, vs variantSpec) triple {
			return crossTriple(scalarOfSlot(0), es[p].key, es[p].msg, es[p].msg, int64(p), vs)
		}},
		{"base-point/own-key-bytes", func(es []triple, p int, vs variantSpec) triple {
			return crossTriple(big.NewInt(1), es[p].key, es[p].msg, es[p].msg, int64(p), vs)
		}},
		{"neg-base-point/own-key-bytes", func(es []triple, p int, vs variantSpec) triple {
			return crossTriple(new(big.Int).Sub(ref.L, big.NewInt(1)), es[p].key, es[p].msg, es[p].msg, int64(p), vs)
		}},
		{"base-point/prev-key-bytes", func(es []triple, p int, vs variantSpec) triple {
			return crossTriple(big.NewInt(1), es[p-1].key, es[p].msg, es[p].msg, int64(p), vs)
		}},
		{"neg-base-point/prev-key-bytes", func(es []triple, p int, vs variantSpec) triple {
			return crossTriple(new(big.Int).Sub(ref.L, big.NewInt(1)), es[p-1].key, es[p].msg, es[p].msg, int64(p), vs)
		}},
		{"neutral-point/prev-key-bytes", func(es []triple, p int, vs variantSpec) triple {
			return crossTriple(big.NewInt(0), es[p-1].key, es[p].msg, es[p].msg, int64(p), vs)
		}},
		{"neutral-point/own-key-bytes", func(es []triple, p int, vs variantSpec) triple {
			return crossTriple(big.NewInt(0), es[p].key, es[p].msg, es[p].msg, int64(p), vs)
		}},
		{"own-point/prev-key-bytes-hashed", func(es []triple, p int, vs variantSpec) triple {
			t := crossTriple(scalarOfSlot(p), es[p-1].key, es[p].msg, es[p].msg, int64(p), vs)
			t.key = append([]byte{}, es[p].key...)
			return t
		}},
		{"own-key/prev-message-hashed", func(es []triple, p int, vs variantSpec) triple {
			return crossTriple(scalarOfSlot(p), es[p].key, es[p-1].msg, es[p].msg, int64(p), vs)
		}},
		{"own-key/first-message-hashed", func(es []triple, p int, vs variantSpec) triple {
			return crossTriple(scalarOfSlot(p), es[p].key, es[0].msg, es[p].msg, int64(p), vs)
		}},
	}
	for _, n := range []int{5, 8, 70} {
		for _, p := range []int{1, 2, 3, 63, 64, 65, 68} {
			if p+1 >= n {
				continue
			}
			for ki, ck := range crossKinds {
				for oi, o := range opts {
					if !c.Thorough() && (ki+p+n)%len(opts) != oi {
						continue
					}
					if !c.Take() {
						continue
					}
					es, ks := build(n, nil, o.vs)
					if o.vs.v != ref.Ph && bytes.Equal(es[p].msg, es[p-1].msg) {
						es[p] = honestTriple(5000+p%24, []byte(fmt.Sprintf("crossed-%d", p)), o.vs)
					}
					es[p], ks[p] = ck.mk(es, p, o.vs), "crossed:"+ck.name
					c.Class("level-crossed")
					c.Distinct(fmt.Sprintf("crossed %d %d %d %d", n, p, ki, oi), true)
					checkBatch(c, "level-crossed", es, ks, o.vs, o.zip, (n+p+ki)%2, fmt.Sprintf("cross-%d-%d", n, p))
				}
			}
		}
	}
	// level env: the environment as a dimension. (1) every GOMAXPROCS value 1..64 and 96, 128, 256: full
	// chunks with one bad entry at the first / middle / each of the last four positions, a bad entry in a
	// second chunk and in the tail, and all-valid batches. (2) k = 0..6, 8 other VerifyBatch calls IN
	// FLIGHT (parked inside their entropy readers, under another context) while two batches - one with
	// a forged last entry, one honest under a third context - run to completion; then the parked calls
	// are released and must report their honest entries valid. Work split over "as many workers as
	// processors", pools of scratch objects with a fixed number of slots and counters of calls in
	// progress behave differently only along these dimensions.
	c.Require("level-env")
	envShapes := []struct {
		n   int
		bad []int
	}{{64, nil}, {64, []int{0}}, {64, []int{31}}, {64, []int{60}}, {64, []int{61}}, {64, []int{62}}, {64, []int{63}}, {68, []int{67}}, {128, []int{127}}, {130, []int{64, 129}}, {132, []int{128}}}
	var gmps []int
	for g := 1; g <= 64; g++ {
		gmps = append(gmps, g)
	}
	gmps = append(gmps, 96, 128, 256)
	for gi, g := range gmps {
		if !c.Take() {
			continue
		}
		c.Class("level-env")
		c.Distinct(fmt.Sprintf("env gmp %d", g), true)
		old := runtime.GOMAXPROCS(g)
		for si, sh := range envShapes {
			o := opts[(gi+si)%len(opts)]
			bad := map[int]string{}
			for j, p := range sh.bad {
				bad[p] = c06Kinds[1+(gi+si+j)%4]
			}
			es, ks := build(sh.n, bad, o.vs)
			checkBatch(c, fmt.Sprintf("level-env GOMAXPROCS=%d", g), es, ks, o.vs, o.zip, (gi+si)%2, fmt.Sprintf("env-%d-%d", g, si))
		}
		runtime.GOMAXPROCS(old)
	}
	for _, g := range []int{1, 4, 16, 32} {
		for _, k := range []int{0, 1, 2, 3, 4, 5, 6, 8, 15, 16, 17, 31, 33, 63, 64, 65, 100, 128, 129, 257} {
			if k > 8 && g != 16 && !c.Thorough() {
				continue
			}
			if !c.Take() {
				continue
			}
			c.Class("level-env")
			c.Distinct(fmt.Sprintf("env inflight %d %d", g, k), true)
			old := runtime.GOMAXPROCS(g)
			parkedVs := variantSpec{ref.Ctx, "parked-ctx"}
			type pres struct {
				all   bool
				valid []bool
				err   error
				pv    interface{}
			}
			results := make([]pres, k)
			release := make(chan struct{})
			entered := make(chan int, k)
			var wg sync.WaitGroup
			parkedEntries := make([][]triple, k) // built here: the harness's memo tables are not for concurrent use
			for i := range parkedEntries {
				parkedEntries[i] = make([]triple, 8)
				for j := range parkedEntries[i] {
					parkedEntries[i][j] = honestTriple(5200+j, []byte{byte(i), byte(j)}, parkedVs)
				}
			}
			for i := 0; i < k; i++ {
				wg.Add(1)
				go func(i int) {
					defer wg.Done()
					es := parkedEntries[i]
					rd := &parkingReader{entered: entered, release: release, id: i, r: rt.NewRng(c.Seed, fmt.Sprint("parked", i))}
					a, v, e, pv := implBatchReader(es, parkedVs, false, rd)
					results[i] = pres{a, v, e, pv}
				}(i)
			}
			for i := 0; i < k; i++ {
				<-entered
			}
			// two batches run to completion while k calls are in flight
			es, ks := build(64, map[int]string{63: "S-bitflip"}, vPure)
			checkBatch(c, fmt.Sprintf("level-env inflight=%d GOMAXPROCS=%d", k, g), es, ks, vPure, false, 0, fmt.Sprintf("inf-%d-%d", g, k))
			es2, ks2 := build(64, map[int]string{60: "wrong-msg"}, vPure)
			checkBatch(c, fmt.Sprintf("level-env inflight=%d GOMAXPROCS=%d", k, g), es2, ks2, vPure, true, 1, fmt.Sprintf("inf2-%d-%d", g, k))
			es4, ks4 := build(8, map[int]string{2: "wrong-msg"}, vPure)
			checkBatch(c, fmt.Sprintf("level-env inflight=%d GOMAXPROCS=%d", k, g), es4, ks4, vPure, false, 0, fmt.Sprintf("inf4-%d-%d", g, k))
			third := variantSpec{ref.Ctx, "third-ctx"}
			es3, ks3 := build(8, nil, third)
			checkBatch(c, fmt.Sprintf("level-env inflight=%d GOMAXPROCS=%d", k, g), es3, ks3, third, false, 1, fmt.Sprintf("inf3-%d-%d", g, k))
			close(release)
			wg.Wait()
			for i, r := range results {
				ok := r.pv == nil && r.err == nil && r.all && len(r.valid) == 8
				for _, v := range r.valid {
					ok = ok && v
				}
				if !ok {
					c.Violation("C06 level-env parked call", fmt.Sprintf("an honest batch of 8 under context %q that was in flight (parked in its entropy reader) while %d other calls were in flight and three batches ran: all=%v valid=%v err=%v panic=%v (GOMAXPROCS=%d, parked call %d)", parkedVs.ctx, k-1, r.all, r.valid, r.err, r.pv, g, i),
						map[string]interface{}{"inflight": k, "gomaxprocs": g, "parked_call": i})
					break
				}
			}
			runtime.GOMAXPROCS(old)
		}
	}
	// level long-msg: every kind of bad entry next to honest entries that carry LONG messages (16 KiB, 40000
	// bytes, 70000 bytes), in the first chunk, at the start of the second and inside it: per-entry hashes
	// kept from one loop or chunk to the next, early vetting of long messages and the like must agree with
	// single verification; and the long-message entry itself spoilt in every way (S + L under ZIP-215 ...)
	c.Require("level-long-msg")
	for li, L := range []int{16384, 40000, 70000} {
		for ki, kind := range c06Kinds[1:] {
			for pi, p := range []int{1, 64, 66} {
				oi := (li + ki + pi) % len(opts)
				o := opts[oi]
				if o.vs.v == ref.Ph {
					o = opts[(oi+2)%len(opts)]
					if o.vs.v == ref.Ph {
						o = opts[0]
					}
				}
				if !c.Thorough() && (li+ki+pi)%2 == 1 {
					continue
				}
				if !c.Take() {
					continue
				}
				n := 70
				es, ks := build(n, nil, o.vs)
				for _, q := range []int{0, 3, 65, 67, 69} {
					es[q] = honestTriple(5300+q, msgLen(L+q, q), o.vs)
				}
				spoilt := mkEntry(kind, p, o.vs)
				if ki%2 == 0 && len(spoilt.sig) == 64 && len(spoilt.key) == 32 && kind != "wrong-msg" && kind != "bad-prehash-or-nil-msg" {
					// the spoilt entry itself carries a long message: rebuild the kind on a long-message base
					base := honestTriple(5300+p, msgLen(L+1, p), o.vs)
					switch kind {
					case "S+L":
						S := ref.LE(base.sig[32:])
						S.Add(S, ref.L)
						spoilt = triple{base.key, base.msg, append(append([]byte{}, base.sig[:32]...), ref.ToLE(S, 32)...)}
					case "S-bitflip":
						sg := append([]byte{}, base.sig...)
						sg[40] ^= 2
						spoilt = triple{base.key, base.msg, sg}
					case "R-bitflip":
						sg := append([]byte{}, base.sig...)
						sg[3] ^= 2
						spoilt = triple{base.key, base.msg, sg}
					}
				}
				es[p], ks[p] = spoilt, kind
				c.Class("level-long-msg")
				c.Distinct(fmt.Sprintf("longmsg %d %d %d", L, ki, p), true)
				checkBatch(c, "level-long-msg", es, ks, o.vs, o.zip, (li+ki+pi)%2, fmt.Sprintf("lm-%d-%d-%d", L, ki, p))
			}
		}
	}
	// level huge: a batch of 2^22 + 68 entries (65537 chunks and a batched remainder) that is almost
	// entirely nil entries (each chunk is refused at its first signature, at no cost), with honest and
	// spoilt entries in the LAST chunks: chunk numbers and offsets beyond 16 bits
	c.Require("level-huge")
	for hi, hn := range []int{1<<22 + 68, 1<<22 + 3} {
		if !c.Take() {
			continue
		}
		c.Class("level-huge")
		c.Distinct(fmt.Sprintf("huge %d", hn), true)
		pubs := make([]PublicKey, hn)
		msgs := make([][]byte, hn)
		sigs := make([][]byte, hn)
		tail := 70
		want := make([]bool, tail)
		for j := 0; j < tail; j++ {
			i := hn - tail + j
			t := mkEntry("good", j, vPure)
			want[j] = true
			if j%5 == 3 {
				t, want[j] = mkEntry(c06Kinds[1+j%4], j, vPure), false
			}
			pubs[i], msgs[i], sigs[i] = t.key, t.msg, t.sig
		}
		all, valid, err := VerifyBatch(rt.NewRng(c.Seed, "huge"), pubs, msgs, sigs, &Options{ZIP215Verify: hi == 1})
		c.Step(1)
		bad := err != nil || all || len(valid) != hn
		if !bad {
			for j := 0; j < tail; j++ {
				bad = bad || valid[hn-tail+j] != want[j]
			}
			for i := 0; i < hn-tail && !bad; i += 4099 {
				bad = valid[i]
			}
		}
		if bad {
			got := ""
			if len(valid) == hn {
				got = fmt.Sprint(valid[hn-tail:])
			}
			c.Violation("C06 level-huge", fmt.Sprintf("VerifyBatch of %d entries (nil entries, then %d real ones): err=%v all=%v, the last %d entries reported %s, single verification says %v", hn, tail, err, all, tail, got, want), map[string]interface{}{"n": hn})
		}
	}
	// level two-defects: ONE entry that is bad in two ways at once - a signature kind (S + L, S bit flip, R
	// bit flip, short signature, small-order / undecodable R) together with a key kind (31 bytes, nil,
	// undecodable, small order, bit flip) - in a batch of 5 and in the second chunk of 70
	c.Require("level-two-defects")
	sigKinds := []string{"S+L", "S-bitflip", "R-bitflip", "sig63", "sig-nil", "small-order-R", "undecodable-R"}
	keyKinds := []string{"key31", "key-nil", "undecodable-key", "small-order-key", "key-bitflip"}
	for si, sk := range sigKinds {
		for ki, kk := range keyKinds {
			for _, shp := range [][2]int{{5, 2}, {70, 66}} {
				if !c.Take() {
					continue
				}
				o := opts[(si+ki+shp[0])%len(opts)]
				es, ks := build(shp[0], nil, o.vs)
				a, b := mkEntry(sk, shp[1], o.vs), mkEntry(kk, shp[1], o.vs)
				es[shp[1]], ks[shp[1]] = triple{b.key, a.msg, a.sig}, sk+"+"+kk
				c.Class("level-two-defects")
				c.Distinct(fmt.Sprintf("twodef %d %d %d", si, ki, shp[0]), true)
				checkBatch(c, "level-two-defects", es, ks, o.vs, o.zip, (si+ki)%2, fmt.Sprintf("td-%d-%d", si, ki))
			}
		}
	}
	// level compensating: TWO bad entries whose errors cancel in the batch equation if their randomisers
	// coincide (or one is a fixed multiple of the other): scalar halves S_i + d and S_j - d; and three
	// entries S_i + d, S_j + d, S_k - 2d. Every pair of positions in small batches, neighbouring pairs
	// and first/last pairs of each chunk in large ones. Each entry alone is rejected; so must both be.
	c.Require("level-compensating")
	shiftS := func(t triple, d *big.Int) triple {
		S := ref.LE(t.sig[32:])
		S.Add(S, d)
		S.Mod(S, ref.L)
		return triple{t.key, t.msg, append(append([]byte{}, t.sig[:32]...), ref.ToLE(S, 32)...)}
	}
	ds := []*big.Int{big.NewInt(1), new(big.Int).Lsh(big.NewInt(1), 127), new(big.Int).Lsh(big.NewInt(1), 128), new(big.Int).Rsh(ref.L, 1)}
	for _, n := range []int{4, 5, 6, 7, 8, 9, 64, 65, 68, 69, 70, 133} {
		var pairs [][2]int
		if n <= 9 {
			for i := 0; i < n; i++ {
				for j := i + 1; j < n; j++ {
					pairs = append(pairs, [2]int{i, j})
				}
			}
		} else {
			last := ((n - 1) / 64) * 64
			if n-last < 4 {
				last -= 64
			}
			cands := [][2]int{{0, 1}, {62, 63}, {0, 63}, {n - 2, n - 1}, {last, n - 1}, {last, last + 1}, {63, 64}}
			for _, pr := range cands {
				if pr[0] >= 0 && pr[1] < n && pr[0] < pr[1] {
					pairs = append(pairs, pr)
				}
			}
		}
		for pi, pr := range pairs {
			for di, d := range ds {
				oi := (pi + di + n) % len(opts)
				if !c.Take() {
					continue
				}
				o := opts[oi]
				es, ks := build(n, nil, o.vs)
				es[pr[0]], ks[pr[0]] = shiftS(es[pr[0]], d), "S+d"
				es[pr[1]], ks[pr[1]] = shiftS(es[pr[1]], new(big.Int).Neg(d)), "S-d"
				if di == 3 && pr[1]+1 < n && (pr[1]+1)/64 == pr[1]/64 {
					// triple: +d, +d, -2d
					es[pr[1]], ks[pr[1]] = shiftS(mkEntry("good", pr[1], o.vs), d), "S+d"
					es[pr[1]+1], ks[pr[1]+1] = shiftS(es[pr[1]+1], new(big.Int).Mul(d, big.NewInt(-2))), "S-2d"
				}
				c.Class("level-compensating")
				c.Distinct(fmt.Sprintf("comp %d %d %d", n, pi, di), true)
				checkBatch(c, "level-compensating", es, ks, o.vs, o.zip, (n+pi)%2, fmt.Sprintf("comp-%d-%d", n, pi))
			}
		}
	}
}

// parkingReader blocks inside its first Read until released (a call "in flight"), then delivers.
type parkingReader struct {
	entered chan int
	release chan struct{}
	id      int
	r       io.Reader
	parked  bool
}

func (p *parkingReader) Read(b []byte) (int, error) {
	if !p.parked {
		p.parked = true
		p.entered <- p.id
		<-p.release
	}
	return p.r.Read(b)
}
