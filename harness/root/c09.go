package ed25519

import (
	"fmt"
	"math/big"

	ref "github.com/oasisprotocol/ed25519/internal/zzverifref"
	rt "github.com/oasisprotocol/ed25519/internal/zzverifrt"
)

func init() { rt.Register("C09", jobC09) }

func refSmallOrderPredicate(b []byte) (small bool, class string) {
	p, ok := ref.Decode(b)
	if !ok {
		return true, "undecodable"
	}
	if p.IsSmallOrder() {
		return true, "torsion"
	}
	return false, "not-small"
}

func jobC09(c *rt.Ctx) {
	c.Require("pred/torsion", "pred/undecodable", "pred/not-small", "e2e/key-small/default-reject", "e2e/R-small/default-reject", "e2e/next-to-malformed", "e2e/mixed-order-key/accept", "e2e/mixed-order-R/accept", "scan/torsion", "scan/not-small", "scan/undecodable")
	checkPred := func(space string, b []byte) {
		exp, class := refSmallOrderPredicate(b)
		got := isSmallOrderVartime(b)
		c.Step(1)
		c.Class(space + "/" + class)
		c.DistinctB(class != "not-small", []byte(space), b)
		if got != exp {
			c.Violation(fmt.Sprintf("C09 predicate class=%s exp=%v", class, exp),
				fmt.Sprintf("small-order predicate on %x = %v, model: %v (%s)", b, got, exp, class),
				map[string]interface{}{"string": ref.Hex(b), "expected": exp, "observed": got, "class": class})
		}
	}
	// positive: the complete set of torsion encodings, plus all replacement strings
	repl := replacementStrings()
	for _, r := range repl {
		if !c.Take() {
			continue
		}
		checkPred("pred", r.b)
		if c.WantSample() {
			e, cl := refSmallOrderPredicate(r.b)
			c.Sample(map[string]interface{}{"string": ref.Hex(r.b), "name": r.name, "model_small": e, "class": cl})
		}
	}
	// negative: [k]B + T_i for k != 0 mod L: never refused, in any mode, as key and as R
	ks := []*big.Int{big.NewInt(1), big.NewInt(2), big.NewInt(3), big.NewInt(4), big.NewInt(7), big.NewInt(8), badd(ref.L, -1), badd(ref.L, -2), badd(ref.L, -8),
		new(big.Int).Rsh(badd(ref.L, 1), 1), new(big.Int).Rsh(badd(ref.L, -1), 1), a0, a1}
	if !c.Thorough() {
		ks = []*big.Int{big.NewInt(1), big.NewInt(8), badd(ref.L, -1), new(big.Int).Rsh(badd(ref.L, 1), 1), a0}
	}
	for _, k := range ks {
		for ti := 0; ti < 8; ti++ {
			if !c.Take() {
				continue
			}
			P := ptOf(k, ti)
			for _, e := range ref.Encodings(P) {
				checkPred("pred", e)
			}
			for _, vs := range vAll[:1+ti%3] {
				// as key (with an honest R), and as R (with an honest key): accepted in default mode
				t1 := mkTriple(k, ti, 0, big.NewInt(9), 0, 0, msgOf(1, vs), vs)
				t2 := mkTriple(a1, 0, 0, k, ti, 0, msgOf(1, vs), vs)
				for which, t := range []triple{t1, t2} {
					exp, cause := modelVerify(t, vs, false)
					if !exp {
						c.Fail("constructed mixed-order triple rejected by model: %s", cause)
						return
					}
					got, pv := implSingle(t, vs, false)
					c.Step(1)
					name := [2]string{"mixed-order-key", "mixed-order-R"}[which]
					c.Class("e2e/" + name + "/accept")
					if !got || pv != nil {
						d := hexd(t)
						d["variant"], d["k"], d["torsion"] = vs.String(), k.String(), ti
						c.Violation(fmt.Sprintf("C09 e2e %s refused torsion-order=%d", name, ref.Torsion(ti).Order()),
							fmt.Sprintf("default-mode verification refused a triple whose %s is [k]B+T_%d (k != 0 mod L)", name, ti), d)
					}
					// positions in the first chunk, at its end, in a second and third batched chunk, in the remainder
					shapes := []batchShape{{0, 1}, {1, 2}, {2, 3}, {0, 4}, {3, 4}, {4, 5}, {5, 6}, {6, 7}, {66, 68}, {69, 70}}
					if c.Thorough() || ti%4 == 1 {
						shapes = append(shapes, batchShape{63, 65}, batchShape{64, 65}, batchShape{64, 130}, batchShape{131, 133}, batchShape{128, 129})
					}
					for _, sh := range shapes {
						_, valid, err, bpv := implBatch(batchWith(t, sh.pos, sh.n, vs), vs, false, rt.NewRng(c.Seed, "c09"))
						c.Step(1)
						if bpv != nil || err != nil || len(valid) != sh.n || !valid[sh.pos] {
							d := hexd(t)
							d["variant"], d["pos"], d["n"], d["valid"] = vs.String(), sh.pos, sh.n, fmt.Sprint(valid)
							c.Violation(fmt.Sprintf("C09 batch %s refused torsion-order=%d", name, ref.Torsion(ti).Order()),
								fmt.Sprintf("VerifyBatch refused a valid entry with %s = [k]B+T_%d at position %d of %d", name, ti, sh.pos, sh.n), d)
						}
					}
				}
			}
		}
	}
	// end to end, positive: each of the 14 torsion encodings as key / as R with a satisfied equation:
	// default rejects, ZIP-215 accepts the same triple (so the refusal is on small-order grounds)
	var tors []replStr
	for _, r := range repl {
		if r.torsion {
			tors = append(tors, r)
		}
	}
	for _, tr := range tors {
		for _, vs := range vAll {
			for which := 0; which < 2; which++ {
				if !c.Take() {
					continue
				}
				var t triple
				msg := msgOf(2, vs)
				dom := ref.Dom2(vs.v, []byte(vs.ctx))
				if which == 0 {
					// key = torsion string, R = [r]B honest: S = r
					r := big.NewInt(11)
					ER := ptOf(r, 0).Encode()
					t = triple{tr.b, msg, append(append([]byte{}, ER...), ref.ToLE(r, 32)...)}
				} else {
					// R = torsion string, key honest: S = h a
					A := ptOf(a0, 0).Encode()
					h := ref.HashModL(dom, tr.b, A, msg)
					S := new(big.Int).Mul(h, a0)
					S.Mod(S, ref.L)
					t = triple{A, msg, append(append([]byte{}, tr.b...), ref.ToLE(S, 32)...)}
				}
				name := [2]string{"key-small", "R-small"}[which]
				ez, _ := modelVerify(t, vs, true)
				ed, cause := modelVerify(t, vs, false)
				if !ez || ed {
					c.Fail("small-order e2e construction: model zip=%v default=%v (%s)", ez, ed, cause)
					return
				}
				gd, _ := implSingle(t, vs, false)
				gz, _ := implSingleOpts(t, vs, true)
				c.Step(2)
				c.Class("e2e/" + name + "/default-reject")
				c.DistinctB(true, []byte("e2e"), t.key, t.sig, []byte(vs.String()))
				if gd || !gz {
					d := hexd(t)
					d["variant"], d["string"], d["default"], d["zip215"] = vs.String(), tr.name, gd, gz
					c.Violation(fmt.Sprintf("C09 e2e %s default=%v zip215=%v", name, gd, gz),
						fmt.Sprintf("%s (%s): default mode returned %v (want false), ZIP-215 returned %v (want true)", name, tr.name, gd, gz), d)
				}
				// (chunk lengths of every residue mod 4, the entry in the last slots: work split over a fixed
				// number of workers leaves the remainder to one of them)
				// one Options value used first in ZIP-215 mode, then - the same value, and a by-value copy of
				// it - with the flag cleared: the second and third call are default mode
				func() {
					defer func() {
						if r := recover(); r != nil {
							c.Violation("C09 e2e options-object reuse panic", fmt.Sprintf("VerifyWithOptions panicked on a reused Options value: %v", r), nil)
						}
					}()
					o := vs.opts(true)
					first := VerifyWithOptions(t.key, t.msg, t.sig, o)
					o.ZIP215Verify = false
					second := VerifyWithOptions(t.key, t.msg, t.sig, o)
					o.ZIP215Verify = true
					cp := *o
					cp.ZIP215Verify = false
					third := VerifyWithOptions(t.key, t.msg, t.sig, &cp)
					c.Step(3)
					if !first || second || third {
						d := hexd(t)
						d["variant"], d["zip215_first"], d["default_same_value"], d["default_copy"] = vs.String(), first, second, third
						c.Violation(fmt.Sprintf("C09 e2e %s options-object reuse", name), fmt.Sprintf("%s (%s): one Options value used with ZIP215Verify = true, then false, then a copy with false: %v %v %v (want true false false)", name, tr.name, first, second, third), d)
					}
				}()
				for _, sh := range []batchShape{{0, 1}, {0, 2}, {1, 2}, {0, 3}, {2, 3}, {0, 4}, {3, 4}, {4, 5}, {5, 6}, {4, 6}, {6, 7}, {10, 11}, {62, 63}, {63, 65}, {64, 65}, {67, 68}, {69, 70}, {66, 71}, {64, 132}, {130, 132}, {133, 134}} {
					_, valid, err, bpv := implBatch(batchWith(t, sh.pos, sh.n, vs), vs, false, rt.NewRng(c.Seed, "c09b"))
					c.Step(1)
					bad := bpv != nil || err != nil || len(valid) != sh.n
					if !bad {
						for i, v := range valid {
							if v != (i != sh.pos) {
								bad = true
							}
						}
					}
					if bad {
						d := hexd(t)
						d["variant"], d["pos"], d["n"], d["valid"] = vs.String(), sh.pos, sh.n, fmt.Sprint(valid)
						c.Violation(fmt.Sprintf("C09 batch %s not refused exactly", name),
							fmt.Sprintf("VerifyBatch default mode with %s (%s) at position %d of %d reported %v", name, tr.name, sh.pos, sh.n, valid), d)
					}
				}
				// the same entry next to a MALFORMED entry of the same chunk (the pre-check loops of the
				// batch path abort at the malformed one; the small-order entry before / after it must still
				// be screened, whichever loop aborted)
				type comp struct {
					n, small, mal int
					kind          string
				}
				var comps []comp
				for _, kind := range []string{"key31", "sig63", "msg63", "S+L"} {
					if kind == "msg63" && vs.v != ref.Ph {
						continue
					}
					comps = append(comps, comp{4, 0, 3, kind}, comp{4, 2, 1, kind}, comp{8, 5, 6, kind}, comp{72, 66, 70, kind}, comp{72, 69, 65, kind}, comp{72, 66, 5, kind}, comp{136, 130, 70, kind}, comp{136, 130, 5, kind})
				}
				for _, cp := range comps {
					entries := append([]triple{}, fillers(vs, cp.n)...)
					entries[cp.small] = t
					m := entries[cp.mal]
					switch cp.kind {
					case "key31":
						m.key = append([]byte{}, m.key[:31]...)
					case "sig63":
						m.sig = append([]byte{}, m.sig[:63]...)
					case "msg63":
						m.msg = append([]byte{}, m.msg[:63]...)
					case "S+L":
						// flagged by the range check without aborting the pre-check loops
						m.sig = append([]byte{}, m.sig...)
						S := ref.LE(m.sig[32:])
						S.Add(S, ref.L)
						copy(m.sig[32:], ref.ToLE(S, 32))
					}
					entries[cp.mal] = m
					_, valid, err, bpv := implBatch(entries, vs, false, rt.NewRng(c.Seed, "c09c"))
					c.Step(1)
					c.Class("e2e/next-to-malformed")
					bad := bpv != nil || err != nil || len(valid) != cp.n
					if !bad {
						for i, v := range valid {
							if v != (i != cp.small && i != cp.mal) {
								bad = true
							}
						}
					}
					if bad {
						d := hexd(t)
						d["variant"], d["n"], d["small_order_pos"], d["malformed_pos"], d["malformed_kind"], d["valid"] = vs.String(), cp.n, cp.small, cp.mal, cp.kind, fmt.Sprint(valid)
						c.Violation(fmt.Sprintf("C09 batch %s next to malformed %s", name, cp.kind),
							fmt.Sprintf("VerifyBatch default mode of %d entries with %s (%s) at %d and a %s entry at %d reported %v", cp.n, name, tr.name, cp.small, cp.kind, cp.mal, valid), d)
					}
				}
			}
		}
	}
	// the same torsion-key (or torsion-R) entry repeated across a chunk boundary (positions 60..71 of 72):
	// every copy must be refused in default mode
	c.Require("e2e/run-across-chunks")
	for ti, tr := range tors {
		for which := 0; which < 2; which++ {
			if !c.Take() {
				continue
			}
			vs := vAll[ti%3]
			msg := msgOf(2, vs)
			var t triple
			if which == 0 {
				r := big.NewInt(11)
				t = triple{tr.b, msg, append(append([]byte{}, ptOf(r, 0).Encode()...), ref.ToLE(r, 32)...)}
			} else {
				A := ptOf(a0, 0).Encode()
				h := ref.HashModL(ref.Dom2(vs.v, []byte(vs.ctx)), tr.b, A, msg)
				S := new(big.Int).Mul(h, a0)
				S.Mod(S, ref.L)
				t = triple{A, msg, append(append([]byte{}, tr.b...), ref.ToLE(S, 32)...)}
			}
			entries := append([]triple{}, fillers(vs, 72)...)
			for i := 60; i < 72; i++ {
				entries[i] = t
			}
			_, valid, err, bpv := implBatch(entries, vs, false, rt.NewRng(c.Seed, "c09run"))
			c.Step(1)
			c.Class("e2e/run-across-chunks")
			c.Distinct(fmt.Sprintf("run %d %d", ti, which), true)
			bad := bpv != nil || err != nil || len(valid) != 72
			if !bad {
				for i, v := range valid {
					if v != (i < 60) {
						bad = true
					}
				}
			}
			if bad {
				c.Violation(fmt.Sprintf("C09 batch run-across-chunks %s", [2]string{"key-small", "R-small"}[which]), fmt.Sprintf("VerifyBatch default mode with the same small-order entry (%s) at positions 60..71 of 72 reported %v", tr.name, valid), map[string]interface{}{"string": tr.name, "valid": fmt.Sprint(valid)})
			}
		}
	}
	// caller buffers refilled between calls: an honest key / signature verified from a buffer, then a
	// small-order key (or R) written into the SAME buffer - it is refused on its content, through single
	// and batch verification, and the honest pair is accepted again afterwards (a screening result kept
	// by slice identity, or next to a stored slice header, would carry over)
	c.Require("buffer-reuse")
	for vi, vs := range vAll {
		for ti := 0; ti < 8; ti++ {
			if !c.Take() {
				continue
			}
			c.Class("buffer-reuse")
			c.Distinct(fmt.Sprintf("c09reuse %d %d", vi, ti), true)
			good := honestTriple(9200+vi, msgOf(1, vs), vs)
			kb, sb := make([]byte, 32), make([]byte, 64)
			pubs := []PublicKey{kb, kb, kb, kb, kb}
			msgs := [][]byte{good.msg, good.msg, good.msg, good.msg, good.msg}
			sigs := [][]byte{sb, sb, sb, sb, sb}
			step := func(key, sig []byte, what string, want bool) {
				copy(kb, key)
				copy(sb, sig)
				got, pv := func() (ok bool, pv interface{}) {
					defer func() { pv = recover() }()
					return VerifyWithOptions(kb, good.msg, sb, vs.opts(false)), nil
				}()
				all, valid, err, bpv := func() (a bool, v []bool, e error, pv interface{}) {
					defer func() { pv = recover() }()
					a, v, e = VerifyBatch(rt.NewRng(c.Seed, "c09reuse"), pubs, msgs, sigs, vs.opts(false))
					return
				}()
				c.Step(2)
				bad := pv != nil || got != want || bpv != nil || err != nil || len(valid) != 5 || all != want
				for _, v := range valid {
					bad = bad || v != want
				}
				if bad {
					c.Violation("C09 buffer-reuse "+what, fmt.Sprintf("%s from reused key / signature buffers (%s, default mode): single %v (panic %v), batch %v all=%v err=%v (panic %v); want %v", what, vs, got, pv, valid, all, err, bpv, want),
						map[string]interface{}{"variant": vs.String(), "step": what, "key": ref.Hex(kb), "sig": ref.Hex(sb)})
				}
			}
			for e := 0; e < len(ref.Encodings(ref.Torsion(ti))); e++ {
				smallKey := mkTriple(big.NewInt(0), ti, e, big.NewInt(5), 0, 0, good.msg, vs)
				smallR := mkTriple(a0, 0, 0, big.NewInt(0), ti, e, good.msg, vs)
				step(good.key, good.sig, "honest pair", true)
				step(smallKey.key, smallKey.sig, fmt.Sprintf("small-order key T%d/enc%d after an honest key", ti, e), false)
				step(good.key, good.sig, "honest pair after a small-order key", true)
				step(smallR.key, smallR.sig, fmt.Sprintf("small-order R T%d/enc%d after an honest signature", ti, e), false)
				step(good.key, good.sig, "honest pair after a small-order R", true)
				step(smallKey.key, smallKey.sig, fmt.Sprintf("small-order key T%d/enc%d again", ti, e), false)
			}
		}
	}
	// the same IN-CHUNK position in an earlier chunk: an ordinary invalid entry (wrong message, S + L, bad R)
	// at position j of the first chunk and a small-order R (or key) with a satisfied cofactored equation at
	// j + 64 and j + 128, every other entry honest: refused in default mode (a per-entry flag read without
	// the chunk offset)
	c.Require("same-slot-earlier-chunk")
	for ji, j := range []int{0, 2, 31, 63} {
		for ti := 0; ti < 8; ti += 1 {
			for what := 0; what < 2; what++ {
				if !c.Take() {
					continue
				}
				c.Class("same-slot-earlier-chunk")
				c.Distinct(fmt.Sprintf("sameslot %d %d %d", j, ti, what), true)
				vs := vAll[(ji+ti)%len(vAll)]
				n := 196
				es := append([]triple{}, fillers(vs, n)...)
				switch (ji + ti) % 3 {
				case 0:
					es[j] = triple{es[j].key, append(append([]byte{}, es[j].msg...), 1), es[j].sig}
					if vs.v == ref.Ph {
						es[j] = triple{es[j].key, es[(j+1)%n].msg, es[j].sig}
					}
				case 1:
					S := ref.LE(es[j].sig[32:])
					S.Add(S, ref.L)
					es[j] = triple{es[j].key, es[j].msg, append(append([]byte{}, es[j].sig[:32]...), ref.ToLE(S, 32)...)}
				default:
					sg := append([]byte{}, es[j].sig...)
					sg[5] ^= 4
					es[j] = triple{es[j].key, es[j].msg, sg}
				}
				var so triple
				if what == 0 {
					so = mkTriple(a0, 0, 0, big.NewInt(0), ti, 0, msgOf(1, vs), vs) // small-order R
				} else {
					so = mkTriple(big.NewInt(0), ti, 0, big.NewInt(5), 0, 0, msgOf(1, vs), vs) // small-order key
				}
				es[j+64], es[j+128] = so, so
				all, valid, err, pv := implBatch(es, vs, false, rt.NewRng(c.Seed, fmt.Sprint("sameslot", j, ti)))
				c.Step(1)
				wantJ, _ := modelVerify(es[j], vs, false)
				wantSO, _ := modelVerify(so, vs, false)
				bad := pv != nil || err != nil || len(valid) != n || all || wantSO
				if !bad {
					for i, v := range valid {
						want := true
						if i == j {
							want = wantJ
						}
						if i == j+64 || i == j+128 {
							want = wantSO
						}
						bad = bad || v != want
					}
				}
				if bad {
					c.Violation("C09 same-slot-earlier-chunk", fmt.Sprintf("batch of %d (%s, default mode): invalid entry at %d, small-order %s T%d at %d and %d: valid there = %v / %v, all=%v err=%v panic=%v; must be refused", n, vs, j, []string{"R", "key"}[what], ti, j+64, j+128, len(valid) == n && valid[j+64], len(valid) == n && valid[j+128], all, err, pv),
						map[string]interface{}{"j": j, "torsion": ti, "what": []string{"R", "key"}[what], "variant": vs.String()})
				}
			}
		}
	}
	// look-alikes under a FOLD: for every torsion encoding T, keys J = T with the same mask xor-ed into two
	// bytes whose positions differ by a multiple of 4 (the xor of the 32- or 64-bit words of J and T is
	// the same), and J = T with +m in one word and -m in another (the sum of the words is the same). J - a
	// decodable key that is not of small order, with a junk signature - sits in the first chunk, T with a
	// signature that satisfies the cofactored equation in the second, every other entry honest: T is
	// refused in default mode (a per-call table of screened keys that remembers a checksum of the key)
	c.Require("fold-lookalike")
	{
		type la struct {
			name string
			j    []byte
			t    []byte
		}
		var las []la
		for ti := 0; ti < 8; ti++ {
			for e, T := range ref.Encodings(ref.Torsion(ti)) {
				found := 0
				for i := 0; i < 32 && found < 6; i++ {
					for j := i + 4; j < 32 && found < 6; j += 4 {
						for _, m := range []byte{0x01, 0x80, 0xff, 0x10} {
							J := append([]byte{}, T...)
							J[i] ^= m
							J[j] ^= m
							if small, class := refSmallOrderPredicate(J); !small && class == "not-small" {
								las = append(las, la{fmt.Sprintf("T%d/enc%d xor %02x at bytes %d,%d", ti, e, m, i, j), J, T})
								found++
								break
							}
						}
					}
				}
				// additive: +m in word a, -m in word b (64-bit little-endian words)
				for a := 0; a < 4 && found < 9; a++ {
					for b := 0; b < 4 && found < 9; b++ {
						if a == b {
							continue
						}
						v := ref.LE(T)
						m := big.NewInt(0x0102030405)
						v.Add(v, new(big.Int).Lsh(m, uint(64*a)))
						v.Sub(v, new(big.Int).Lsh(m, uint(64*b)))
						if v.Sign() < 0 || v.BitLen() > 256 {
							continue
						}
						J := ref.ToLE(v, 32)
						if small, class := refSmallOrderPredicate(J); !small && class == "not-small" {
							las = append(las, la{fmt.Sprintf("T%d/enc%d +m in word %d, -m in word %d", ti, e, a, b), J, T})
							found++
						}
					}
				}
			}
		}
		c.Extra("fold_lookalikes", int64(len(las)))
		for li, l := range las {
			if !c.Thorough() && li%2 == 1 {
				continue
			}
			if !c.Take() {
				continue
			}
			c.Class("fold-lookalike")
			c.Distinct(fmt.Sprintf("fold %d", li), true)
			vs := vPure
			n := 68
			es := append([]triple{}, fillers(vs, n)...)
			es[5] = triple{l.j, msgOf(1, vs), es[5].sig}
			tt := triple{l.t, msgOf(1, vs), append(append([]byte{}, ptOf(big.NewInt(5), 0).Encode()...), ref.ToLE(big.NewInt(5), 32)...)}
			es[66] = tt
			wantT, _ := modelVerify(tt, vs, false)
			wantJ, _ := modelVerify(es[5], vs, false)
			all, valid, err, pv := implBatch(es, vs, false, rt.NewRng(c.Seed, fmt.Sprint("fold", li)))
			c.Step(1)
			bad := pv != nil || err != nil || len(valid) != n || all || wantT
			if !bad {
				for i, v := range valid {
					want := true
					if i == 5 {
						want = wantJ
					}
					if i == 66 {
						want = wantT
					}
					bad = bad || v != want
				}
			}
			if bad {
				c.Violation("C09 fold-lookalike", fmt.Sprintf("batch of %d (default mode) with the look-alike key %x at 5 and the small-order key %x at 66 (%s): valid[5]=%v valid[66]=%v all=%v err=%v panic=%v; the small-order key must be refused", n, l.j, l.t, l.name, len(valid) == n && valid[5], len(valid) == n && valid[66], all, err, pv),
					map[string]interface{}{"lookalike": ref.Hex(l.j), "small_order_key": ref.Hex(l.t), "relation": l.name})
			}
		}
	}
	// scan: predicate == model for every y in [0, 2^13) x both sign bits (thorough 2^16)
	lim := 1 << 14
	if c.Thorough() {
		lim = 1 << 18
	}
	var b [32]byte
	for y := 0; y < lim; y++ {
		for s := 0; s < 2; s++ {
			if !c.Take() {
				continue
			}
			for i := range b {
				b[i] = 0
			}
			b[0], b[1], b[2] = byte(y), byte(y>>8), byte(y>>16)
			b[31] = byte(s) << 7
			checkPred("scan", b[:])
		}
	}
}
