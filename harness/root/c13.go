package ed25519

import (
	"runtime"
	"bytes"
	"crypto"
	"errors"
	"fmt"
	"io"
	"strings"

	ref "github.com/oasisprotocol/ed25519/internal/zzverifref"
	rt "github.com/oasisprotocol/ed25519/internal/zzverifrt"
)

func init() {
	rt.Register("C13", jobC13)
	rt.Register("C14", jobC14)
}

// canary-wrapped slices: the slice of length n lives inside a larger backing array filled with a
// pattern; after the call the whole backing array must be unchanged.
type canary struct {
	backing, snapshot []byte
	s                 []byte
}

func mkCanary(content []byte, isNil bool) *canary {
	if isNil {
		return &canary{}
	}
	b := make([]byte, 32+len(content)+32)
	for i := range b {
		b[i] = 0xC5 ^ byte(i)
	}
	copy(b[32:], content)
	// two-index slice on purpose: the slice has spare capacity, so an append-style write past its
	// length lands in the canary area instead of forcing a reallocation
	return &canary{backing: b, snapshot: append([]byte{}, b...), s: b[32 : 32+len(content)]}
}

func (k *canary) intact() bool { return bytes.Equal(k.backing, k.snapshot) }

func outcome(f func() (interface{}, error)) (class string, val interface{}, pv interface{}) {
	defer func() {
		if r := recover(); r != nil {
			class, pv = "panic", r
		}
	}()
	v, err := f()
	if err != nil {
		return "error", nil, nil
	}
	return "value", v, nil
}

func lenBytes(n int, salt byte) []byte {
	if n < 0 {
		return nil
	}
	b := make([]byte, n)
	for i := range b {
		b[i] = salt + byte(i)
	}
	return b
}

func jobC13(c *rt.Ctx) {
	c.Require("verify/panic", "verify/value", "sign/panic", "sign/value", "sign/error", "seed/panic", "seed/value", "vwo/panic", "vwo/value", "batch/value", "batch/error", "batch-entries", "alias", "entropy/error", "entropy/ok")
	good := honestTriple(70, msgOf(2, vPure), vPure)
	priv := NewKeyFromSeed(seedOf(70))
	keyLens := []int{-1, 0, 1, 31, 32, 33, 63, 64, 65}
	sigLens := []int{-1}
	for i := 0; i <= 66; i++ {
		sigLens = append(sigLens, i)
	}
	sigLens = append(sigLens, 128)
	msgLens := []int{-1, 0, 1, 64, 65}
	expect := func(api, want, got string, pv interface{}, d map[string]interface{}) {
		c.Step(1)
		c.Class(api + "/" + want)
		if want != got {
			d["panic"] = fmt.Sprint(pv)
			c.Violation(fmt.Sprintf("C13 %s want=%s got=%s", api, want, got), fmt.Sprintf("%s: outcome %s, documented contract says %s", api, got, want), d)
		}
	}
	content := func(n int, src []byte) []byte {
		if n < 0 {
			return nil
		}
		b := make([]byte, n)
		copy(b, src)
		for i := len(src); i < n; i++ {
			b[i] = byte(i)
		}
		return b
	}
	// Verify / VerifyWithOptions: key length x signature length x message length
	for _, kl := range keyLens {
		for _, sl := range sigLens {
			for _, ml := range msgLens {
				if !c.Take() {
					continue
				}
				k := mkCanary(content(kl, good.key), kl < 0)
				s := mkCanary(content(sl, good.sig), sl < 0)
				m := mkCanary(content(ml, good.msg), ml < 0)
				d := map[string]interface{}{"key_len": kl, "sig_len": sl, "msg_len": ml}
				want := "value"
				if kl != 32 {
					want = "panic"
				}
				cl, v, pv := outcome(func() (interface{}, error) { return Verify(k.s, m.s, s.s), nil })
				expect("verify", want, cl, pv, d)
				if cl == "value" && sl != 64 && v.(bool) {
					c.Violation("C13 verify accepts wrong-length signature", "Verify returned true for a signature of wrong length", d)
				}
				cl, _, pv = outcome(func() (interface{}, error) { return VerifyWithOptions(k.s, m.s, s.s, &Options{}), nil })
				expect("vwo", want, cl, pv, d)
				if !k.intact() || !s.intact() || !m.intact() {
					c.Violation("C13 verify modifies input", "Verify/VerifyWithOptions modified a caller-supplied slice (or its surroundings)", d)
				}
				c.Distinct(fmt.Sprintf("v %d %d %d", kl, sl, ml), kl == 32 && sl != 64)
				if c.WantSample() && kl == 32 && sl == 63 {
					c.Sample(map[string]interface{}{"api": "Verify / VerifyWithOptions", "key_len": kl, "sig_len": sl, "msg_len": ml, "contract": want, "observed": cl, "inputs_intact": k.intact() && s.intact() && m.intact()})
				}
			}
		}
	}
	// VerifyWithOptions: hash selector x digest length x context length
	for hsel := 0; hsel <= 20; hsel++ {
		for _, dl := range []int{-1, 0, 1, 63, 64, 65, 128} {
			for _, cl := range []int{0, 1, 255, 256} {
				for _, kl := range []int{32, 31} {
					if !c.Take() {
						continue
					}
					o := &Options{Hash: crypto.Hash(hsel), Context: strings.Repeat("z", cl)}
					want := "value"
					if cl > 255 || !(hsel == 0 || crypto.Hash(hsel) == crypto.SHA512) || (crypto.Hash(hsel) == crypto.SHA512 && dl != 64) || kl != 32 {
						want = "panic"
					}
					m := mkCanary(content(dl, nil), dl < 0)
					k := mkCanary(content(kl, good.key), false)
					s := mkCanary(good.sig, false)
					d := map[string]interface{}{"hash": hsel, "digest_len": dl, "ctx_len": cl, "key_len": kl}
					got, _, pv := outcome(func() (interface{}, error) { return VerifyWithOptions(k.s, m.s, s.s, o), nil })
					expect("vwo", want, got, pv, d)
					if !k.intact() || !s.intact() || !m.intact() {
						c.Violation("C13 vwo modifies input", "VerifyWithOptions modified a caller-supplied slice", d)
					}
					c.Distinct(fmt.Sprintf("o %d %d %d %d", hsel, dl, cl, kl), true)
				}
			}
		}
	}
	// hash selectors beyond the ones the crypto package registers (crypto.Hash methods panic on them):
	// Sign must answer with an error and VerifyBatch with all-false entries, never with a panic
	c.Require("selector-sweep")
	var sels []uint
	for h := uint(0); h <= 40; h++ {
		sels = append(sels, h)
	}
	sels = append(sels, 63, 64, 65, 200, 255, 256, 1<<16, 1<<31, 1<<32-1)
	digest64 := msgOf(0, vPh)
	for _, sel := range sels {
		if !c.Take() {
			continue
		}
		c.Class("selector-sweep")
		c.Distinct(fmt.Sprintf("sel %d", sel), true)
		hf := crypto.Hash(sel)
		okSel := sel == 0 || hf == crypto.SHA512
		d := map[string]interface{}{"hash": sel}
		for style := 0; style < 4; style++ {
			var o crypto.SignerOpts = hf
			switch style {
			case 1:
				o = &Options{Hash: hf, Context: "c"}
			case 2:
				o = customOpts{hf} // a caller-defined SignerOpts, by value
			case 3:
				o = &customOptsPtr{hf} // ... and by pointer
			}
			want := "error"
			if okSel {
				want = "value"
			}
			got, _, pv := outcome(func() (interface{}, error) { return PrivateKey(priv).Sign(nil, digest64, o) })
			expect("sign-selector", want, got, pv, d)
		}
		for _, n := range []int{1, 3, 4, 7, 65} {
			es := fillers(vPh, n)
			pubs := make([]PublicKey, n)
			msgs := make([][]byte, n)
			sigs := make([][]byte, n)
			for i := range es {
				pubs[i], msgs[i], sigs[i] = es[i].key, es[i].msg, es[i].sig
			}
			all, valid, err, pv := func() (a bool, v []bool, e error, pv interface{}) {
				defer func() { pv = recover() }()
				a, v, e = VerifyBatch(rt.NewRng(1, "sel"), pubs, msgs, sigs, &Options{Hash: hf})
				return
			}()
			c.Step(1)
			bad := pv != nil || err != nil || len(valid) != n
			if !bad && !okSel {
				bad = all
				for _, v := range valid {
					bad = bad || v
				}
			}
			if bad {
				dd := map[string]interface{}{"hash": sel, "n": n, "panic": fmt.Sprint(pv), "err": fmt.Sprint(err), "all": all}
				c.Violation(fmt.Sprintf("C13 batch-selector ok=%v", okSel), fmt.Sprintf("VerifyBatch of %d entries with hash selector %d: panic=%v err=%v all=%v valid=%v", n, sel, pv, err, all, valid), dd)
			}
		}
	}
	// Sign / PrivateKey.Sign / NewKeyFromSeed: key length x message length x options
	for _, kl := range keyLens {
		for _, ml := range msgLens {
			for oi := 0; oi < 5; oi++ {
				if !c.Take() {
					continue
				}
				k := mkCanary(content(kl, priv), kl < 0)
				m := mkCanary(content(ml, nil), ml < 0)
				d := map[string]interface{}{"key_len": kl, "msg_len": ml, "opt": oi}
				switch oi {
				case 0:
					want := "value"
					if kl != 64 {
						want = "panic"
					}
					got, _, pv := outcome(func() (interface{}, error) { return Sign(k.s, m.s), nil })
					expect("sign", want, got, pv, d)
				case 1, 2, 3, 4:
					var o crypto.SignerOpts
					want := "value"
					switch oi {
					case 1:
						o = crypto.Hash(0)
					case 2:
						o = &Options{Hash: crypto.SHA512}
						if ml != 64 {
							want = "error"
						}
					case 3:
						o = &Options{Context: strings.Repeat("q", 256)}
						want = "error"
					case 4:
						o = crypto.SHA256
						want = "error"
					}
					if want == "value" && kl != 64 {
						want = "panic"
					}
					got, _, pv := outcome(func() (interface{}, error) { return PrivateKey(k.s).Sign(nil, m.s, o) })
					expect("sign", want, got, pv, d)
				}
				if oi == 0 {
					want := "value"
					if kl != 32 {
						want = "panic"
					}
					got, _, pv := outcome(func() (interface{}, error) { return NewKeyFromSeed(k.s), nil })
					expect("seed", want, got, pv, d)
				}
				if !k.intact() || !m.intact() {
					c.Violation("C13 sign modifies input", "Sign/NewKeyFromSeed modified a caller-supplied slice", d)
				}
				c.Distinct(fmt.Sprintf("s %d %d %d", kl, ml, oi), true)
			}
		}
	}
	// VerifyBatch: count triples in [0,5]^3
	for a := 0; a <= 5; a++ {
		for b := 0; b <= 5; b++ {
			for d3 := 0; d3 <= 5; d3++ {
				if !c.Take() {
					continue
				}
				pubs := make([]PublicKey, a)
				msgs := make([][]byte, b)
				sigs := make([][]byte, d3)
				for i := range pubs {
					pubs[i] = good.key
				}
				for i := range msgs {
					msgs[i] = good.msg
				}
				for i := range sigs {
					sigs[i] = good.sig
				}
				want := "value"
				if a != b || b != d3 {
					want = "error"
				}
				got, v, pv := outcome(func() (interface{}, error) {
					all, valid, err := VerifyBatch(rt.NewRng(1, "c13"), pubs, msgs, sigs, &Options{})
					return []interface{}{all, valid}, err
				})
				expect("batch", want, got, pv, map[string]interface{}{"counts": []int{a, b, d3}})
				if got == "error" {
					// an error comes with no result at all: (false, nil, err)
					if all, valid, _ := VerifyBatch(rt.NewRng(c.Seed, "c13c"), pubs, msgs, sigs, &Options{}); all || valid != nil {
						c.Violation("C13 batch counts result", fmt.Sprintf("VerifyBatch with mismatched counts returned all=%v valid=%v next to its error", all, valid), map[string]interface{}{"counts": []int{a, b, d3}})
					}
				}
				if got == "value" {
					vv := v.([]interface{})
					if len(vv[1].([]bool)) != a || !vv[0].(bool) {
						c.Violation("C13 batch counts result", "VerifyBatch result vector length or summary wrong for equal counts", map[string]interface{}{"counts": []int{a, b, d3}})
					}
				}
				c.Distinct(fmt.Sprintf("bc %d %d %d", a, b, d3), true)
			}
		}
	}
	// VerifyBatch: malformed entries of every kind at every position: never a panic, never an error
	type ek struct {
		name string
		mut  func(t *triple)
	}
	kinds := []ek{
		{"nil-key", func(t *triple) { t.key = nil }},
		{"key31", func(t *triple) { t.key = msgLen(31, 4) }},
		{"key33", func(t *triple) { t.key = append(append([]byte{}, t.key...), 0) }},
		{"key64", func(t *triple) { t.key = append(append([]byte{}, t.key...), t.key...) }},
		{"key0", func(t *triple) { t.key = []byte{} }},
		{"msg-huge", func(t *triple) { t.msg = make([]byte, 70000) }},
		{"nil-sig", func(t *triple) { t.sig = nil }},
		{"sig0", func(t *triple) { t.sig = []byte{} }},
		{"sig1", func(t *triple) { t.sig = msgLen(1, 9) }},
		{"sig32", func(t *triple) { t.sig = msgLen(32, 9) }},
		{"sig63", func(t *triple) { t.sig = msgLen(63, 9) }},
		{"sig65", func(t *triple) { t.sig = append(append([]byte{}, t.sig...), 0) }},
		{"nil-msg", func(t *triple) { t.msg = nil }},
		{"msg63", func(t *triple) { t.msg = msgLen(63, 1) }},
		{"all-nil", func(t *triple) { t.key, t.msg, t.sig = nil, nil, nil }},
		{"sig-highbits", func(t *triple) {
			if len(t.sig) == 64 {
				t.sig = append([]byte{}, t.sig...)
				t.sig[63] |= 0xe0
			}
		}},
		{"key-ff", func(t *triple) { t.key = bytes.Repeat([]byte{0xff}, 32) }},
	}
	for _, vs := range vAll {
		for _, n := range []int{1, 2, 3, 4, 5, 64, 65, 70, 133} {
			for pos := 0; pos < n; pos++ {
				if n >= 64 && !(pos < 2 || pos >= n-3 || pos == 31 || pos == 63 || pos == 64 || pos == 66 || pos == 127 || pos == 128) {
					continue
				}
				for ki, kd := range kinds {
					// two: 0 = one malformed entry; 1 = the next entry malformed in another way; 2 = the next entry
					// malformed in the SAME way (byte-identical malformed neighbours, also across a chunk
					// boundary); 3 = every entry malformed in the same way
					for two := 0; two < 4; two++ {
						if two == 3 && pos != 0 {
							continue
						}
						if !c.Take() {
							continue
						}
						entries := append([]triple{}, fillers(vs, n)...)
						kd.mut(&entries[pos])
						if two >= 1 && n == 1 {
							continue
						}
						if two == 1 {
							kinds[(ki+5)%len(kinds)].mut(&entries[(pos+1)%n])
						}
						if two == 2 {
							entries[(pos+1)%n] = entries[pos]
						}
						if two == 3 {
							for i := range entries {
								entries[i] = entries[pos]
							}
						}
						c.Class("batch-entries")
						c.Distinct(fmt.Sprintf("be %v %d %d %d %d", vs, n, pos, ki, two), true)
						if c.WantSample() && n == 65 {
							c.Sample(map[string]interface{}{"api": "VerifyBatch", "n": n, "malformed_kind": kd.name, "position": pos, "second_malformed": two == 1, "variant": vs.String()})
						}
						for _, zip := range []bool{false, true} {
							all, valid, err, pv := implBatch(entries, vs, zip, rt.NewRng(c.Seed, "c13b"))
							c.Step(1)
							bad := pv != nil || err != nil || len(valid) != n
							if !bad {
								and := true
								for i, v := range valid {
									t := entries[i]
									want := false
									if len(t.key) == 32 && !(vs.v == ref.Ph && len(t.msg) != 64) {
										want, _ = modelVerify(t, vs, zip)
									}
									if v != want {
										bad = true
									}
									and = and && v
								}
								bad = bad || all != and
							}
							if bad {
								c.Violation(fmt.Sprintf("C13 batch malformed kind=%s zip215=%v", kd.name, zip), fmt.Sprintf("VerifyBatch (zip215=%v) with malformed entry %s at %d of %d (%s): panic=%v err=%v valid=%v all=%v", zip, kd.name, pos, n, vs, pv, err, valid, all),
									map[string]interface{}{"kind": kd.name, "pos": pos, "n": n, "variant": vs.String(), "second_bad": two, "zip215": zip})
							}
						}
					}
				}
			}
		}
	}
	// TWO defects in ONE entry: every ordered pair of malformed kinds applied to the same entry (a short key
	// together with S >= L, a truncated signature together with a nil message, ...), in a batch of 5 and in
	// the second chunk of 70: never a panic, never an error, the entry false (a check that is skipped for an
	// entry "already known to be bad" must not be the one that guards a later access)
	c.Require("batch-entries/two-defects")
	for _, shp := range [][2]int{{5, 2}, {70, 66}, {70, 0}} {
		for k1 := range kinds {
			if !c.Take() {
				continue
			}
			c.Class("batch-entries/two-defects")
			c.Distinct(fmt.Sprintf("two-defects %d %d %d", shp[0], shp[1], k1), true)
			for k2 := range kinds {
				if k1 == k2 {
					continue
				}
				vs := vAll[(k1+k2)%len(vAll)]
				entries := append([]triple{}, fillers(vs, shp[0])...)
				kinds[k1].mut(&entries[shp[1]])
				kinds[k2].mut(&entries[shp[1]])
				zip := (k1+k2)%2 == 0
				all, valid, err, pv := implBatch(entries, vs, zip, rt.NewRng(c.Seed, "c13d"))
				c.Step(1)
				bad := pv != nil || err != nil || len(valid) != shp[0]
				if !bad {
					and := true
					for i, v := range valid {
						want := true
						if i == shp[1] {
							t := entries[i]
							want = false
							if len(t.key) == 32 && !(vs.v == ref.Ph && len(t.msg) != 64) {
								want, _ = modelVerify(t, vs, zip)
							}
						}
						bad = bad || v != want
						and = and && v
					}
					bad = bad || all != and
				}
				if bad {
					c.Violation(fmt.Sprintf("C13 batch two-defects kinds=%s+%s", kinds[k1].name, kinds[k2].name), fmt.Sprintf("VerifyBatch (zip215=%v) with one entry malformed in two ways (%s, then %s) at %d of %d (%s): panic=%v err=%v valid=%v all=%v", zip, kinds[k1].name, kinds[k2].name, shp[1], shp[0], vs, pv, err, valid, all),
						map[string]interface{}{"kinds": kinds[k1].name + "+" + kinds[k2].name, "pos": shp[1], "n": shp[0], "variant": vs.String(), "zip215": zip})
				}
			}
		}
	}
	// the environment as a dimension: one malformed entry in a full chunk (and in a second chunk) under
	// EVERY GOMAXPROCS value 1..64 and 96, 128, 256 - never a panic, never an error (work that is split
	// over as many workers as there are processors has its partition cases here)
	c.Require("batch-entries/gomaxprocs")
	{
		var gmps []int
		for g := 1; g <= 64; g++ {
			gmps = append(gmps, g)
		}
		gmps = append(gmps, 96, 128, 256)
		for gi, g := range gmps {
			if !c.Take() {
				continue
			}
			c.Class("batch-entries/gomaxprocs")
			c.Distinct(fmt.Sprintf("gmp %d", g), true)
			old := runtime.GOMAXPROCS(g)
			for si, sh := range [][2]int{{64, 0}, {64, 63}, {64, 31}, {70, 3}, {128, 127}, {133, 64}} {
				kd := kinds[(gi+si)%len(kinds)]
				vs := vAll[(gi+si)%len(vAll)]
				entries := append([]triple{}, fillers(vs, sh[0])...)
				kd.mut(&entries[sh[1]])
				zip := (gi+si)%2 == 0
				all, valid, err, pv := implBatch(entries, vs, zip, rt.NewRng(c.Seed, "c13g"))
				c.Step(1)
				bad := pv != nil || err != nil || len(valid) != sh[0]
				if !bad {
					and := true
					for i, v := range valid {
						want := true
						if i == sh[1] {
							t := entries[i]
							want = false
							if len(t.key) == 32 && !(vs.v == ref.Ph && len(t.msg) != 64) {
								want, _ = modelVerify(t, vs, zip)
							}
						}
						bad = bad || v != want
						and = and && v
					}
					bad = bad || all != and
				}
				if bad {
					c.Violation(fmt.Sprintf("C13 batch malformed kind=%s gomaxprocs", kd.name), fmt.Sprintf("VerifyBatch with malformed entry %s at %d of %d (%s) under GOMAXPROCS=%d: panic=%v err=%v all=%v", kd.name, sh[1], sh[0], vs, g, pv, err, all),
						map[string]interface{}{"kind": kd.name, "pos": sh[1], "n": sh[0], "gomaxprocs": g})
				}
			}
			runtime.GOMAXPROCS(old)
		}
	}
	// no input is modified, whatever its CONTENT: the C01 triple space at deviation level <= 1 (torsion,
	// non-canonical, undecodable key / R, S perturbations, lengths) through single and batch verification
	// with every argument compared byte for byte before and after the call
	c.Require("content-intact")
	modHook = func(api, which string, before, after []byte) {
		c.Violation(fmt.Sprintf("C13 %s modifies its %s argument", api, which), fmt.Sprintf("%s changed the caller's %s: %x -> %x", api, which, before, after), map[string]interface{}{"api": api, "argument": which, "before": ref.Hex(before), "after": ref.Hex(after)})
	}
	sp := newTripleSpace(false)
	rt.EnumDev(sp.sizes, 1, func(level int, v []int) {
		if !sp.valid(v) {
			return
		}
		if !c.Take() {
			return
		}
		t, vs, _ := sp.build(v)
		c.Class("content-intact")
		c.Distinct(fmt.Sprint("ci", v), true)
		for _, zip := range []bool{false, true} {
			implSingle(t, vs, zip)
			implSingleOpts(t, vs, zip)
			c.Step(2)
			if len(t.key) == 32 {
				for _, sh := range []batchShape{{0, 4}, {2, 5}, {64, 68}} {
					implBatch(batchWith(t, sh.pos, sh.n, vs), vs, zip, rt.NewRng(c.Seed, "c13ci"))
					c.Step(1)
				}
			}
		}
	})
	modHook = nil
	// aliasing: results equal to the unaliased call, inputs unmodified
	for ai := 0; ai < 7; ai++ {
		if !c.Take() {
			continue
		}
		c.Class("alias")
		c.Distinct(fmt.Sprintf("alias %d", ai), true)
		c.Step(1)
		switch ai {
		case 0: // message = signature prefix (shared memory)
			sig := append([]byte{}, good.sig...)
			m := sig[:32]
			k2 := NewKeyFromSeed(seedOf(70))
			s2 := Sign(k2, append([]byte{}, m...))
			buf := append([]byte{}, s2...)
			// verify with msg aliasing a copy of R bytes inside another buffer
			if !Verify(good.key, good.msg, good.sig) || Verify(good.key, m, sig) != Verify(good.key, append([]byte{}, m...), append([]byte{}, sig...)) || !bytes.Equal(buf, s2) {
				c.Violation("C13 alias msg-in-sig", "verification result depends on aliasing of message and signature", nil)
			}
		case 1: // key and signature inside one buffer
			buf := append(append([]byte{}, good.sig...), good.key...)
			if !Verify(buf[64:], good.msg, buf[:64]) || !bytes.Equal(buf[:64], good.sig) || !bytes.Equal(buf[64:], good.key) {
				c.Violation("C13 alias key-after-sig", "verification with key and signature in one buffer failed or modified it", nil)
			}
		case 2: // key = R bytes (same slice)
			sig := append([]byte{}, good.sig...)
			a := Verify(sig[:32], good.msg, sig)
			b := Verify(append([]byte{}, sig[:32]...), good.msg, append([]byte{}, sig...))
			if a != b || !bytes.Equal(sig, good.sig) {
				c.Violation("C13 alias key-is-R", "verification result depends on key aliasing R", nil)
			}
		case 3: // batch entries sharing one backing array / same slices passed as several entries
			n := 6
			pubs, msgs, sigs := make([]PublicKey, n), make([][]byte, n), make([][]byte, n)
			for i := range pubs {
				pubs[i], msgs[i], sigs[i] = good.key, good.msg, good.sig
			}
			all, valid, err := VerifyBatch(rt.NewRng(1, "al"), pubs, msgs, sigs, &Options{})
			if err != nil || !all || len(valid) != n {
				c.Violation("C13 alias batch-same-slices", "VerifyBatch with the same slices passed as every entry did not accept", nil)
			}
		case 4: // Sign: message aliases the private key's public half
			k := NewKeyFromSeed(seedOf(71))
			s1 := Sign(k, k[32:])
			s2 := Sign(k, append([]byte{}, k[32:]...))
			if !bytes.Equal(s1, s2) {
				c.Violation("C13 alias sign-msg-in-key", "Sign result depends on message aliasing the key", nil)
			}
		case 5: // result of Sign must not alias later results
			k := NewKeyFromSeed(seedOf(72))
			s1 := Sign(k, []byte("one"))
			keep := append([]byte{}, s1...)
			_ = Sign(k, []byte("two"))
			if !bytes.Equal(s1, keep) {
				c.Violation("C13 alias sign-result-shared", "a signature returned by Sign changed after a later Sign call", nil)
			}
		case 6: // a signature is the caller's up to its capacity; key and message sit in one record
			seed := seedOf(73)
			rec := append(append(append([]byte{}, NewKeyFromSeed(seed)...), []byte("message in the same record")...), bytes.Repeat([]byte{0xA5}, 16)...)
			recKeep := append([]byte{}, rec...)
			k := PrivateKey(rec[:64])
			m := rec[64 : len(rec)-16]
			s1 := Sign(k, m)
			want := append([]byte{}, s1...)
			full := s1[:cap(s1)]
			for i := range full {
				full[i] = 0xEE
			}
			_ = append(s1, 1, 2, 3)
			s2, e2 := k.Sign(nil, m, &Options{})
			if !bytes.Equal(rec, recKeep) {
				c.Violation("C13 alias sign-record", "Sign changed the record holding key || message (or its guard bytes), or overwriting the returned signature's capacity did", nil)
			}
			if e2 != nil || !bytes.Equal(s2, want) || !Verify(PublicKey(rec[32:64]), m, want) {
				c.Violation("C13 alias sign-result-capacity", "after the caller overwrote a returned signature up to its capacity, signing again gives a different signature", nil)
			}
		}
	}
	// finite entropy sources that know their length (bytes.Reader, bytes.Buffer, strings.Reader) holding
	// EXACTLY what the call consumes (16 bytes per entry of every batched chunk; the 1..3 entries left
	// after the last chunk draw nothing): no error; one byte less: the reader's error
	c.Require("entropy/exact-finite")
	for _, n := range []int{0, 3, 4, 5, 64, 65, 66, 67, 68, 128, 130, 131, 132} {
		for rk := 0; rk < 3; rk++ {
			for short := 0; short < 2; short++ {
				if !c.Take() {
					continue
				}
				batched := n - n%64
				if n%64 >= 4 {
					batched = n
				}
				need := 16*batched - short
				if need < 0 {
					continue
				}
				buf := make([]byte, need)
				for i := range buf {
					buf[i] = byte(i*13 + 7)
				}
				var rd io.Reader
				switch rk {
				case 0:
					rd = bytes.NewReader(buf)
				case 1:
					rd = bytes.NewBuffer(buf)
				default:
					rd = strings.NewReader(string(buf))
				}
				all, valid, err, pv := implBatchReader(fillers(vPure, n), vPure, false, rd)
				c.Step(1)
				c.Class("entropy/exact-finite")
				c.Distinct(fmt.Sprintf("finite %d %d %d", n, rk, short), true)
				wantErr := short == 1 && batched > 0
				bad := pv != nil || (err != nil) != wantErr
				if !bad && !wantErr {
					bad = !all || len(valid) != n
				}
				if !bad && wantErr {
					bad = all || valid != nil
				}
				if bad {
					c.Violation(fmt.Sprintf("C13 entropy exact-finite wantErr=%v", wantErr), fmt.Sprintf("VerifyBatch of %d valid entries with a finite reader (kind %d) holding %d bytes (%d needed): err=%v all=%v panic=%v", n, rk, need, 16*batched, err, all, pv), map[string]interface{}{"n": n, "reader_kind": rk, "bytes": need})
				}
			}
		}
	}
	// entropy answers (E2): per chunk the reader answers in {full, 1-byte reads, short then EOF, error at byte k}
	answers := []entAnswer{{name: "full", failAt: -1}, {name: "1-byte-reads", failAt: -1, chunk1: true}, {name: "eof@0", failAt: 0, eof: true}, {name: "err@0", failAt: 0}, {name: "err@1", failAt: 1, chunk1: true}, {name: "err@15", failAt: 15, chunk1: true}, {name: "err@16", failAt: 16, chunk1: true}, {name: "err@63", failAt: 63, chunk1: true}, {name: "full-zero-bytes", failAt: -1, zero: true}, {name: "err+data@5-once", failAt: 5, transient: true}, {name: "err+data@40-once", failAt: 40, transient: true}}
	sizesE := []int{3, 4, 64, 70, 130, 192}
	for _, n := range sizesE {
		nchunks := 0
		for r := n; r >= 4; {
			bs := 64
			if r < 64 {
				bs = r
			}
			r -= bs
			nchunks++
		}
		// all answer vectors with at most 2 non-default answers over the chunks
		sizes := make([]int, nchunks)
		for i := range sizes {
			sizes[i] = len(answers)
		}
		if nchunks == 0 {
			sizes = []int{1}
		}
		rt.EnumDev(sizes, 2, func(level int, v []int) {
			for badPos := -1; badPos < 1; badPos++ {
				if !c.Take() {
					continue
				}
				zeroStream := false
				for _, x := range v {
					zeroStream = zeroStream || answers[x].zero
				}
				if zeroStream && badPos >= 0 {
					// zero randomisers let an invalid entry through (the statement allows that for
					// degenerate streams): only all-valid batches are run on the all-zero stream
					continue
				}
				entries := append([]triple{}, fillers(vPure, n)...)
				if badPos >= 0 {
					entries[n-1].sig = append([]byte{}, entries[n-1].sig...)
					entries[n-1].sig[5] ^= 1
				}
				script := make([]entAnswer, len(v))
				firstFail := -1
				for i, x := range v {
					script[i] = answers[x]
					if nchunks > 0 && script[i].failAt >= 0 && firstFail < 0 {
						firstFail = i
					}
				}
				rd := &scriptReader{script: script}
				all, valid, err, pv := implBatchReader(entries, vPure, false, rd)
				c.Step(1)
				wantErr := firstFail >= 0
				if wantErr {
					c.Class("entropy/error")
				} else {
					c.Class("entropy/ok")
				}
				c.Distinct(fmt.Sprintf("ent %d %v %d", n, v, badPos), true)
				bad := pv != nil || (err != nil) != wantErr
				if !bad && !wantErr {
					bad = len(valid) != n || all != (badPos < 0)
					for i, x := range valid {
						if x != !(badPos >= 0 && i == n-1) {
							bad = true
						}
					}
				}
				if !bad && wantErr {
					bad = all || valid != nil
					if !script[firstFail].eof && !errors.Is(err, errScript) {
						bad = true
					}
				}
				if bad {
					c.Violation(fmt.Sprintf("C13 entropy answers wantErr=%v", wantErr), fmt.Sprintf("VerifyBatch n=%d entropy script %v: panic=%v err=%v all=%v valid=%v", n, v, pv, err, all, valid),
						map[string]interface{}{"n": n, "script": fmt.Sprint(v), "bad_last": badPos})
				}
			}
		})
	}
}

var errScript = errors.New("scripted entropy failure")

// scriptReader answers chunk by chunk: a "chunk" is one io.ReadFull request of VerifyBatch; it is
// recognised by cumulative byte counts being multiples of 16 bytes per entry - simply: each
// top-level request (first Read call after the previous request was satisfied) starts a new answer.
type scriptReader struct {
	script []entAnswer
	cur    int // index of current answer
	given  int // bytes given for the current request
	want   int // size of the current request (learned from the first Read of a request)
	fired  int // 1 + index of the request whose transient error was already reported
}

// entAnswer is one environment answer of the entropy reader for one chunk request.
type entAnswer struct {
	name   string
	failAt int // -1 never; else the request fails once failAt bytes were delivered
	chunk1 bool
	eof    bool
	// transient: the error is reported ONCE, together with the bytes up to failAt; later calls of the
	// same request deliver data again (a caller that drops an error which came with data goes on)
	transient bool
	zero      bool // the bytes delivered are all zero (a legal stream)
}

func (r *scriptReader) Read(p []byte) (int, error) {
	if r.want == 0 {
		r.want = len(p)
		r.given = 0
	}
	var a entAnswer
	if r.cur < len(r.script) {
		a = r.script[r.cur]
	} else {
		a.failAt = -1
	}
	if a.transient && r.fired == r.cur+1 {
		a.failAt = -1
	}
	if a.failAt >= 0 && r.given >= a.failAt && !a.transient {
		if a.eof {
			return 0, io.EOF
		}
		return 0, errScript
	}
	n := len(p)
	if a.chunk1 {
		n = 1
	}
	if a.failAt >= 0 && r.given+n > a.failAt {
		n = a.failAt - r.given
		if a.transient {
			for i := 0; i < n; i++ {
				p[i] = byte(0x5a + r.given + i*7 + r.cur)
			}
			r.given += n
			r.fired = r.cur + 1
			return n, errScript
		}
	}
	for i := 0; i < n; i++ {
		p[i] = byte(0x5a + r.given + i*7 + r.cur)
		if a.zero {
			p[i] = 0
		}
	}
	r.given += n
	if r.given >= r.want {
		r.want = 0
		r.cur++
	}
	return n, nil
}
