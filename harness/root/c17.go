package ed25519

import (
	"errors"
	"sync/atomic"
	"sync"
	"runtime/debug"
	"runtime"
	"bytes"
	"fmt"
	"io"
	"math/big"
	"strings"

	"github.com/oasisprotocol/ed25519/internal/ge25519"
	"github.com/oasisprotocol/ed25519/internal/modm"
	ref "github.com/oasisprotocol/ed25519/internal/zzverifref"
	rt "github.com/oasisprotocol/ed25519/internal/zzverifrt"
)

func init() { rt.Register("C17", jobC17) }

// msmPoint is a point with known decomposition [k]B + T_t.
type msmPoint struct {
	k *big.Int
	t int
}

func (m msmPoint) ref() ref.Point { return ptOf(m.k, m.t) }

// msmCase is one collection as VerifyBatch builds it: n entries, randomisers r_i, hash scalars h_i,
// signature scalars S_i, key points A_i and R points R_i (the heap holds their negations).
type msmCase struct {
	n       int
	r, h, S []*big.Int
	A, R    []msmPoint
}

// scalars returns the 2n+1 heap scalars exactly as VerifyBatch derives them.
func (m *msmCase) scalars() []*big.Int {
	out := make([]*big.Int, 2*m.n+1)
	sum := new(big.Int)
	for i := 0; i < m.n; i++ {
		t := new(big.Int).Mul(new(big.Int).Mod(m.S[i], ref.L), m.r[i])
		t.Mod(t, ref.L)
		sum.Add(sum, t)
		sum.Mod(sum, ref.L)
		hr := new(big.Int).Mul(m.h[i], m.r[i])
		out[1+i] = hr.Mod(hr, ref.L)
		out[m.n+1+i] = new(big.Int).Set(m.r[i])
	}
	out[0] = sum
	return out
}

func (m *msmCase) points() []msmPoint {
	out := make([]msmPoint, 2*m.n+1)
	out[0] = msmPoint{big.NewInt(1), 0}
	neg := func(p msmPoint) msmPoint {
		return msmPoint{new(big.Int).Mod(new(big.Int).Neg(p.k), ref.L), (8 - p.t) % 8}
	}
	for i := 0; i < m.n; i++ {
		out[1+i] = neg(m.A[i])
		out[m.n+1+i] = neg(m.R[i])
	}
	return out
}

// expected sum via the group structure: sum [s_i]([k_i]B + T_{t_i}) = [sum s_i k_i mod L]B + T_{sum s_i t_i mod 8}.
func msmExpected(sc []*big.Int, pts []msmPoint) ref.Point {
	ks := new(big.Int)
	ts := new(big.Int)
	for i := range sc {
		ks.Add(ks, new(big.Int).Mul(sc[i], pts[i].k))
		ts.Add(ts, new(big.Int).Mul(sc[i], big.NewInt(int64(pts[i].t))))
	}
	ks.Mod(ks, ref.L)
	ts.Mod(ts, big.NewInt(8))
	return ref.BaseMul(ks).Add(ref.Torsion(int(ts.Int64())))
}

func msmExpectedDirect(sc []*big.Int, pts []msmPoint) ref.Point {
	acc := ref.Identity()
	for i := range sc {
		acc = acc.Add(pts[i].ref().Mul(sc[i]))
	}
	return acc
}

// heapDecodeMismatch: set when decoding into a reused heap slot differed from decoding into a fresh point.
var heapDecodeMismatch string

func fillHeap(batch *batchHeap, sc []*big.Int, pts []msmPoint) {
	for i := range sc {
		modm.Expand(&batch.scalars[i], ref.ToLE(sc[i], 32))
		enc := pts[i].ref().Encode()
		var fresh ge25519.Ge25519
		if !ge25519.UnpackVartime(&fresh, enc) {
			panic("harness: cannot unpack constructed point")
		}
		// the heap slot is reused from chunk to chunk: decoding into it must give what a fresh point gets
		if !ge25519.UnpackVartime(&batch.points[i], enc) || batch.points[i] != fresh {
			heapDecodeMismatch = fmt.Sprintf("%x", enc)
			batch.points[i] = fresh
		}
	}
}

func gcdClass(sc []*big.Int) string {
	g := new(big.Int)
	for _, s := range sc {
		g.GCD(nil, nil, g, s)
	}
	switch {
	case g.Sign() == 0:
		return "all-zero"
	case g.Cmp(big.NewInt(1)) == 0:
		return "gcd=1"
	case g.BitLen() <= 64:
		return "gcd>1"
	default:
		return "gcd>2^64"
	}
}

var msmScalarProfiles = []string{"hash-like", "r=0", "r=1", "r-equal", "r-one-nonzero", "r-first-zero", "r-last-zero", "r-last-two-zero", "r-odd-zero", "r-max", "S-top-slice", "even", "g=3", "g=4", "g=6", "g=8", "g=2^64", "g=3*2^100", "g=2^30", "g=2^56", "g=2^60", "g=2^90", "g=2^112", "g=2^120", "h-56bit", "h-112bit", "h-168bit", "r=2^127", "h=L-1"}
var msmPointProfiles = []string{"honest-distinct", "same-point", "pairs", "with-identity", "mixed-order", "all-torsion"}

func mkMsmCase(n int, sp, pp string, rng *rt.Rng) *msmCase {
	m := &msmCase{n: n}
	rnd := func(bits uint) *big.Int {
		b := make([]byte, 64)
		rng.Read(b)
		x := ref.LE(b)
		return x.Mod(x, pow2(bits))
	}
	for i := 0; i < n; i++ {
		r := rnd(128)
		h := new(big.Int).Mod(rnd(300), ref.L)
		S := new(big.Int).Mod(rnd(300), ref.L)
		smallH := func(g *big.Int) {
			// keep r*h and r*S below L so that the common factor survives the reduction
			r = new(big.Int).Mul(rnd(60), g)
			if r.BitLen() > 128 {
				r.Mod(r, pow2(128))
			}
			h = rnd(100)
			S = rnd(90)
		}
		switch sp {
		case "r=0":
			r = big.NewInt(0)
		case "r=1":
			r = big.NewInt(1)
		case "r-equal":
			r = big.NewInt(0x1234567)
		case "r-one-nonzero":
			if i != n/2 {
				r = big.NewInt(0)
			}
		case "r-first-zero":
			if i == 0 {
				r = big.NewInt(0)
			}
		case "r-last-zero":
			if i == n-1 {
				r = big.NewInt(0)
			}
		case "r-last-two-zero":
			if i >= n-2 {
				r = big.NewInt(0)
			}
		case "r-odd-zero":
			// an odd number of zero randomisers at the end and one in the middle
			if i >= n-3 || i == n/2 {
				r = big.NewInt(0)
			}
		case "r-max":
			r = badd(pow2(128), -1)
			if i%2 == 1 {
				h = badd(ref.L, -1)
			}
		case "S-top-slice":
			S = badd(ref.L, -int64(1+i))
		case "even":
			smallH(big.NewInt(2))
		case "g=3":
			smallH(big.NewInt(3))
		case "g=4":
			smallH(big.NewInt(4))
		case "g=6":
			smallH(big.NewInt(6))
		case "g=8":
			smallH(big.NewInt(8))
		case "g=2^64":
			r = new(big.Int).Mul(rnd(30), pow2(64))
			h, S = rnd(100), rnd(90)
		case "g=2^30", "g=2^56", "g=2^60", "g=2^90", "g=2^112", "g=2^120":
			// the final Bos-Coster scalar is (a small odd multiple of) a power of two whose exponent is a
			// multiple of the limb size of one of the layouts: its leading bit is the LOWEST bit of a limb
			var k uint
			fmt.Sscanf(sp, "g=2^%d", &k)
			small := int64(1 + 2*(i%4))
			if i == 0 {
				small = 1
			}
			r = new(big.Int).Mul(big.NewInt(small), pow2(k))
			h, S = rnd(100), rnd(90)
		case "g=3*2^100":
			r = new(big.Int).Mul(big.NewInt(int64(1+i%5)), new(big.Int).Mul(big.NewInt(3), pow2(100)))
			h, S = rnd(100), rnd(90)
		case "h-56bit":
			h, S, r = rnd(20), rnd(20), rnd(30)
		case "h-112bit":
			h, S, r = rnd(50), rnd(50), rnd(60)
		case "h-168bit":
			h, S, r = rnd(80), rnd(80), rnd(80)
		case "r=2^127":
			r = pow2(127)
			if i%3 == 0 {
				r = badd(pow2(127), 1)
			}
		case "h=L-1":
			// (not for every entry: r_i (L-1) = L - r_i for all i leaves one 253-bit scalar against
			// 128-bit ones after n subtractions, the known 2^120-step worst case of Bos-Coster,
			// which needs n chosen hash values and is outside the statement)
			if i%2 == 1 {
				h = badd(ref.L, -1)
			}
			S = badd(ref.L, -1)
		}
		m.r, m.h, m.S = append(m.r, r), append(m.h, h), append(m.S, S)
		var A, R msmPoint
		ka := new(big.Int).Mod(rnd(300), ref.L)
		kr := new(big.Int).Mod(rnd(300), ref.L)
		switch pp {
		case "honest-distinct":
			A, R = msmPoint{ka, 0}, msmPoint{kr, 0}
		case "same-point":
			A, R = msmPoint{a0, 0}, msmPoint{a0, 0}
		case "pairs":
			if i%2 == 0 {
				A, R = msmPoint{big.NewInt(int64(7 + i)), 1}, msmPoint{big.NewInt(int64(11 + i)), 0}
			} else {
				A, R = msmPoint{new(big.Int).Sub(ref.L, big.NewInt(int64(7+i-1))), 7}, msmPoint{new(big.Int).Sub(ref.L, big.NewInt(int64(11+i-1))), 0}
			}
		case "with-identity":
			A, R = msmPoint{ka, 0}, msmPoint{kr, 0}
			if i%3 == 0 {
				A = msmPoint{big.NewInt(0), 0}
			}
			if i%4 == 1 {
				R = msmPoint{big.NewInt(0), 0}
			}
		case "mixed-order":
			A, R = msmPoint{ka, (i + 1) % 8}, msmPoint{kr, (3*i + 2) % 8}
		case "all-torsion":
			A, R = msmPoint{big.NewInt(0), (i + 1) % 8}, msmPoint{big.NewInt(0), (5*i + 3) % 8}
		}
		m.A, m.R = append(m.A, A), append(m.R, R)
	}
	return m
}

func runMsm(batch *batchHeap, sc []*big.Int, pts []msmPoint) []byte {
	var p ge25519.Ge25519
	return runMsmInto(&p, batch, sc, pts)
}

// runMsmInto writes the result into a caller-supplied output point (VerifyBatch reuses one output
// point for all chunks of a call, so the routine must not depend on what it holds).
func runMsmInto(p *ge25519.Ge25519, batch *batchHeap, sc []*big.Int, pts []msmPoint) []byte {
	fillHeap(batch, sc, pts)
	multiScalarmultVartime(p, batch, len(sc))
	out := make([]byte, 32)
	ge25519.Pack(out, p)
	return out
}

// dirtyPoint is a valid, non-neutral point with reduced coordinates.
func dirtyPoint(k int64) *ge25519.Ge25519 {
	var p ge25519.Ge25519
	if !ge25519.UnpackVartime(&p, ref.Base().Mul(big.NewInt(k)).Encode()) {
		panic("dirtyPoint: base multiple does not decode")
	}
	return &p
}

func jobC17(c *rt.Ctx) {
	c.Require("msm/gcd=1", "msm/gcd>1", "msm/all-zero", "reuse", "e2e/no-fallback", "e2e/valid-chunk-after-rejected-chunk", "helpers")
	sizes := []int{4, 5, 6, 7, 8, 33, 63, 64}
	sprof := msmScalarProfiles
	pprof := []string{"honest-distinct", "mixed-order", "all-torsion", "pairs"}
	if c.Thorough() {
		sizes = sizes[:0]
		for n := 4; n <= 64; n++ {
			sizes = append(sizes, n)
		}
		pprof = msmPointProfiles
	}
	// (1) the multi-scalar routine, direct
	for _, n := range sizes {
		for si, sp := range sprof {
			for pi, pp := range pprof {
				if !c.Thorough() && n > 8 && (si+pi)%4 != 0 {
					continue
				}
				if !c.Take() {
					continue
				}
				m := mkMsmCase(n, sp, pp, rt.NewRng(c.Seed, fmt.Sprintf("msm-%d-%s-%s", n, sp, pp)))
				sc, pts := m.scalars(), m.points()
				want := msmExpected(sc, pts)
				if n <= 5 && (si+pi)%7 == 0 {
					if !msmExpectedDirect(sc, pts).Equal(want) {
						c.Fail("model self-check: structured and direct multi-scalar sums differ")
						return
					}
				}
				var batch batchHeap
				got := runMsm(&batch, sc, pts)
				c.Step(1)
				gc := gcdClass(sc)
				c.Class("msm/" + gc)
				c.Distinct(fmt.Sprintf("msm %d %s %s", n, sp, pp), gc != "all-zero")
				if c.WantSample() && gc == "gcd>1" {
					c.Sample(map[string]interface{}{"space": "multi-scalar routine", "n": n, "count": 2*n + 1, "scalar_profile": sp, "point_profile": pp, "gcd_class": gc, "expected": ref.Hex(want.Encode()), "observed": ref.Hex(got)})
				}
				// the same case into an output point that already holds a non-neutral point
				var batchD batchHeap
				if gotD := runMsmInto(dirtyPoint(int64(4+n)), &batchD, sc, pts); !bytes.Equal(gotD, want.Encode()) {
					c.Violation(fmt.Sprintf("C17 msm %s dirty-output", gc),
						fmt.Sprintf("multi-scalar multiplication of %d terms (scalars %s, points %s, %s) into an output point holding [%d]B is not the sum of [s_i]P_i", 2*n+1, sp, pp, gc, 4+n),
						map[string]interface{}{"n": n, "scalar_profile": sp, "point_profile": pp, "gcd_class": gc, "expected": ref.Hex(want.Encode()), "observed": ref.Hex(gotD)})
				}
				c.Step(1)
				if !bytes.Equal(got, want.Encode()) {
					var scs []string
					for _, s := range sc {
						scs = append(scs, s.String())
					}
					c.Violation(fmt.Sprintf("C17 msm %s", gc),
						fmt.Sprintf("multi-scalar multiplication of %d terms (scalars %s, points %s, %s) is not the sum of [s_i]P_i", 2*n+1, sp, pp, gc),
						map[string]interface{}{"n": n, "scalar_profile": sp, "point_profile": pp, "gcd_class": gc, "expected": ref.Hex(want.Encode()), "observed": ref.Hex(got), "scalars": scs})
				}
			}
		}
	}
	// (2) heap reuse (E2): every sequence of <= 3 chunk sizes on one heap object equals the fresh-heap result
	rs := []int{4, 5, 63, 64}
	var seqs [][]int
	for _, a := range rs {
		seqs = append(seqs, []int{a})
		for _, b := range rs {
			seqs = append(seqs, []int{a, b})
			for _, d := range rs {
				seqs = append(seqs, []int{a, b, d})
			}
		}
	}
	for qi, seq := range seqs {
		for _, sp0 := range []string{"hash-like", "even", "then-r=0", "then-r=1"} {
			if !c.Take() {
				continue
			}
			var shared batchHeap
			var sharedOut ge25519.Ge25519
			for step, n := range seq {
				sp := sp0
				if strings.HasPrefix(sp0, "then-") {
					// a general first chunk, then the degenerate-randomiser shortcuts on the dirty heap / output
					sp = "hash-like"
					if step > 0 {
						sp = sp0[5:]
					}
				}
				m := mkMsmCase(n, sp, "mixed-order", rt.NewRng(c.Seed, fmt.Sprintf("reuse-%d-%d-%s", qi, step, sp)))
				sc, pts := m.scalars(), m.points()
				gotShared := runMsmInto(&sharedOut, &shared, sc, pts)
				var fresh batchHeap
				gotFresh := runMsm(&fresh, sc, pts)
				want := msmExpected(sc, pts).Encode()
				c.Step(2)
				if !bytes.Equal(gotShared, gotFresh) {
					c.Violation("C17 heap-reuse differs-from-fresh", fmt.Sprintf("chunk %d of size sequence %v: result on a reused heap differs from a fresh heap", step, seq),
						map[string]interface{}{"sequence": fmt.Sprint(seq), "step": step, "shared": ref.Hex(gotShared), "fresh": ref.Hex(gotFresh)})
				}
				if !bytes.Equal(gotShared, want) {
					c.Violation(fmt.Sprintf("C17 msm %s", gcdClass(sc)), fmt.Sprintf("chunk %d of size sequence %v: result is not the sum", step, seq),
						map[string]interface{}{"sequence": fmt.Sprint(seq), "step": step, "observed": ref.Hex(gotShared), "expected": ref.Hex(want)})
				}
			}
			c.Class("reuse")
			c.Distinct(fmt.Sprintf("reuse %v %s", seq, sp0), true)
		}
	}
	if heapDecodeMismatch != "" {
		c.Violation("C17 heap-reuse decode", fmt.Sprintf("decoding %s into a heap slot used by an earlier chunk differs from decoding it into a fresh point", heapDecodeMismatch), map[string]interface{}{"encoding": heapDecodeMismatch})
	}
	// (3) vartime helpers on boundary pairs vs big.Int
	jobC17Helpers(c)
	// (4) end to end with the fallback hook
	jobC17E2E(c)
	// (5) valid chunks after rejected chunks of the same call
	jobC17Mixed(c)
	jobC17DenseLen(c)
	jobC17Parallel(c)
}

func limbBoundaryValues() []*big.Int {
	var out []*big.Int
	bpl := uint(modm.BitsPerLimb)
	for limb := uint(0); limb < uint(modm.LimbSize); limb++ {
		base := limb * bpl
		for _, d := range []int64{-1, 0, 1} {
			x := badd(pow2(base), d)
			if x.Sign() >= 0 && x.Cmp(ref.L) < 0 {
				out = append(out, x)
			}
		}
		x := badd(pow2(base+bpl), -1)
		if x.Cmp(ref.L) < 0 {
			out = append(out, x)
		}
	}
	out = append(out, big.NewInt(0), big.NewInt(1), big.NewInt(2), badd(pow2(128), -1), pow2(128), badd(pow2(128), 1), badd(ref.L, -1), badd(ref.L, -2), pow2(252), badd(pow2(252), -1), pow2(127), pow2(64), badd(pow2(64), -1))
	return out
}

func jobC17Helpers(c *rt.Ctx) {
	vals := limbBoundaryValues()
	bpl := uint(modm.BitsPerLimb)
	for ai, a := range vals {
		if !c.Take() {
			continue
		}
		var A modm.Bignum256
		modm.Expand(&A, ref.ToLE(a, 32))
		c.Class("helpers")
		c.Distinct(fmt.Sprintf("helpers %d", ai), true)
		fail := func(what string, b *big.Int, ls int) {
			bs := ""
			if b != nil {
				bs = b.String()
			}
			c.Violation("C17 helper "+what, fmt.Sprintf("%s wrong for a=%s b=%s limbSize=%d", what, a, bs, ls), map[string]interface{}{"a": a.String(), "b": bs, "limbSize": ls})
		}
		c.Step(3)
		if modm.IsZeroVartime(&A) != (a.Sign() == 0) {
			fail("IsZeroVartime", nil, 0)
		}
		if modm.IsOneVartime(&A) != (a.Cmp(big.NewInt(1)) == 0) {
			fail("IsOneVartime", nil, 0)
		}
		if modm.IsAtMost128bitsVartime(&A) != (a.BitLen() <= 128) {
			fail("IsAtMost128bitsVartime", nil, 0)
		}
		for _, b := range vals {
			var B modm.Bignum256
			modm.Expand(&B, ref.ToLE(b, 32))
			mx := a
			if b.Cmp(mx) > 0 {
				mx = b
			}
			// smallest limbSize (index of the top limb) that holds both operands
			minLS := 0
			if mx.BitLen() > 0 {
				minLS = (mx.BitLen() - 1) / int(bpl)
			}
			for ls := minLS; ls <= modm.LimbSize-1; ls++ {
				c.Step(2)
				if modm.LessThanVartime(&A, &B, ls) != (a.Cmp(b) < 0) {
					fail("LessThanVartime", b, ls)
				}
				if modm.LessThanOrEqualVartime(&A, &B, ls) != (a.Cmp(b) <= 0) {
					fail("LessThanOrEqualVartime", b, ls)
				}
				if a.Cmp(b) >= 0 {
					var O modm.Bignum256
					modm.SubVartime(&O, &A, &B, ls)
					var ob [32]byte
					modm.Contract(ob[:], &O)
					c.Step(1)
					if ref.LE(ob[:]).Cmp(new(big.Int).Sub(a, b)) != 0 {
						fail("SubVartime", b, ls)
					}
					// in place, as the heap does
					A2 := A
					modm.SubVartime(&A2, &A2, &B, ls)
					if A2 != O {
						fail("SubVartime-in-place", b, ls)
					}
				}
			}
		}
	}
}

func jobC17E2E(c *rt.Ctx) {
	var sizes []int
	if c.Thorough() {
		for n := 4; n <= 200; n++ {
			sizes = append(sizes, n)
		}
	} else {
		for _, r := range [][2]int{{4, 9}, {31, 33}, {62, 70}, {126, 132}, {191, 193}, {200, 200}} {
			for n := r[0]; n <= r[1]; n++ {
				sizes = append(sizes, n)
			}
		}
	}
	comps := []string{"distinct-honest", "one-repeated", "mixed-order", "S-top-slice"}
	ents := []string{"zero", "drbg1", "drbg2", "drbg3", "drbg4", "ff", "const"}
	for _, n := range sizes {
		for ci, comp := range comps {
			for vi, vs := range vAll {
				for ei, ent := range ents {
					if !c.Thorough() && (ei >= 3) && (n+ci+vi+ei)%4 != 0 {
						continue
					}
					if !c.Take() {
						continue
					}
					zip := comp == "S-top-slice"
					entries := make([]triple, n)
					for i := range entries {
						switch comp {
						case "distinct-honest":
							entries[i] = fillers(vs, n)[i]
						case "one-repeated":
							entries[i] = fillers(vs, 1)[0]
						case "mixed-order":
							entries[i] = mkTriple(a0, (i+1)%8, 0, big.NewInt(int64(100+i%16)), (3*i)%8, 0, msgOf(i%4, vs), vs)
						case "S-top-slice":
							if i%5 == 0 {
								S := badd(ref.L, -int64(1+i%3))
								key := ref.Encodings(ref.Torsion(i % 8))[0]
								R := ptOf(S, (i/5)%8).Encode()
								entries[i] = triple{key, msgOf(i%4, vs), append(append([]byte{}, R...), ref.ToLE(S, 32)...)}
							} else {
								entries[i] = fillers(vs, n)[i]
							}
						}
					}
					// the model must agree that every entry is valid
					if n <= 9 || comp != "distinct-honest" {
						for i, e := range entries {
							if n > 9 && i >= 16 {
								break
							}
							if ok, cause := modelVerify(e, vs, zip); !ok {
								c.Fail("e2e composition %s entry %d rejected by model: %s", comp, i, cause)
								return
							}
						}
					}
					fallbacks := 0
					verifOnFallback = func(off, bs int) { fallbacks++ }
					var all bool
					var valid []bool
					var err error
					var pv interface{}
					switch ent {
					case "zero":
						all, valid, err, pv = implBatchReader(entries, vs, zip, zeroReader{})
					case "ff":
						all, valid, err, pv = implBatchReader(entries, vs, zip, constReader(0xff))
					case "const":
						all, valid, err, pv = implBatchReader(entries, vs, zip, constReader(0x42))
					default:
						all, valid, err, pv = implBatch(entries, vs, zip, rt.NewRng(c.Seed, ent+fmt.Sprint(n, ci, vi)))
					}
					verifOnFallback = nil
					c.Step(1)
					degenerate := ent == "ff" || ent == "const"
					c.Distinct(fmt.Sprintf("e2e %d %s %v %s", n, comp, vs, ent), true)
					bad := pv != nil || err != nil || !all || len(valid) != n
					for _, v := range valid {
						if !v {
							bad = true
						}
					}
					d := map[string]interface{}{"n": n, "composition": comp, "variant": vs.String(), "entropy": ent, "fallbacks": fallbacks, "all": all, "err": fmt.Sprint(err), "panic": fmt.Sprint(pv)}
					if bad {
						c.Violation("C17 e2e valid batch rejected", fmt.Sprintf("all-valid batch of %d (%s, %s, entropy %s) not accepted: all=%v err=%v", n, comp, vs, ent, all, err), d)
					}
					if fallbacks == 0 {
						c.Class("e2e/no-fallback")
					} else if degenerate {
						c.Class("e2e/fallback-degenerate-stream")
					} else {
						c.Class("e2e/fallback")
						c.Violation("C17 e2e fallback used", fmt.Sprintf("all-valid batch of %d (%s, %s, entropy %s) needed the per-signature fallback %d times", n, comp, vs, ent, fallbacks), d)
					}
					if c.WantSample() && n == 65 {
						c.Sample(d)
					}
				}
			}
		}
	}
}

// jobC17DenseLen: all-valid batches whose entries have EVERY message length 0..8327 (eight consecutive
// lengths per batch) and the windows around 16384, 32768, 65536, under pure, a 1-byte and a 255-byte
// context: the batch equation itself accepts them (no fallback) however the batch path buffers
// dom2 || R || A || M.
func jobC17DenseLen(c *rt.Ctx) {
	c.Require("dense-len/no-fallback")
	var starts []int
	for l := 0; l <= 8320; l += 8 {
		starts = append(starts, l)
	}
	for _, m := range []int{16384, 32768, 65536} {
		for l := m - 328; l <= m+40; l += 8 {
			starts = append(starts, l)
		}
	}
	for si, l0 := range starts {
		for vi, vs := range []variantSpec{vPure, vCtx, {ref.Ctx, strings.Repeat("k", 255)}} {
			if !c.Take() {
				continue
			}
			entries := make([]triple, 8)
			for i := range entries {
				seed := seedOf(900 + (si+i)%5)
				msg := msgLen(l0+i, si)
				entries[i] = triple{ref.Public(seed), msg, ref.Sign(seed, msg, vs.v, []byte(vs.ctx))}
			}
			fallbacks := 0
			verifOnFallback = func(off, bs int) { fallbacks++ }
			all, valid, err, pv := implBatch(entries, vs, si%2 == 0, rt.NewRng(c.Seed, fmt.Sprint("dl", l0, vi)))
			verifOnFallback = nil
			c.Step(1)
			c.Distinct(fmt.Sprintf("dl %d %d", l0, vi), true)
			d := map[string]interface{}{"lengths": fmt.Sprintf("%d..%d", l0, l0+7), "variant": vs.String(), "fallbacks": fallbacks, "all": all, "valid": fmt.Sprint(valid), "err": fmt.Sprint(err), "panic": fmt.Sprint(pv)}
			if pv != nil || err != nil || !all || len(valid) != 8 {
				c.Violation("C17 dense-len valid batch rejected", fmt.Sprintf("all-valid batch with message lengths %d..%d (%s) not accepted", l0, l0+7, vs), d)
			} else if fallbacks != 0 {
				c.Class("dense-len/fallback")
				c.Violation("C17 dense-len fallback used", fmt.Sprintf("all-valid batch with message lengths %d..%d (%s) needed the per-signature fallback", l0, l0+7, vs), d)
			} else {
				c.Class("dense-len/no-fallback")
			}
		}
	}
}

// jobC17Parallel: histories followed by REAL parallelism. After each kind of refused / failing call
// (entropy source fails at once, fails in the second chunk, over-long context, mismatched counts) - and
// after none - two goroutines verify 1536 valid signatures each at the same time (they meet inside
// their first entropy read); every chunk of both must be accepted by the batch equation itself. Scratch
// objects that a failed call hands back twice, or that two calls come to share, garble the scalars
// and points of a valid chunk: the equation fails and the chunk falls back.
func jobC17Parallel(c *rt.Ctx) {
	c.Require("parallel/no-fallback")
	type pre struct {
		name string
		run  func(es []triple)
	}
	pres := []pre{
		{"none", func([]triple) {}},
		{"entropy-fails-at-once", func(es []triple) { implBatchReader(es[:8], vPure, false, &failAfterReader{n: 0}) }},
		{"entropy-fails-in-second-chunk", func(es []triple) { implBatchReader(es[:132], vPure, false, &failAfterReader{n: 1024}) }},
		{"context-too-long", func(es []triple) {
			implBatchReader(es[:8], variantSpec{ref.Ctx, strings.Repeat("x", 256)}, false, rt.NewRng(1, "p"))
		}},
		{"entropy-fails-twice", func(es []triple) {
			implBatchReader(es[:8], vPure, false, &failAfterReader{n: 0})
			implBatchReader(es[:70], vPure, true, &failAfterReader{n: 0})
		}},
	}
	for pi, p := range pres {
		for rep := 0; rep < 2; rep++ {
			if !c.Take() {
				continue
			}
			c.Distinct(fmt.Sprintf("parallel %d %d", pi, rep), true)
			es := fillers(vPure, 200)
			var big [2][]triple
			for g := 0; g < 2; g++ {
				for i := 0; i < 1536; i++ {
					big[g] = append(big[g], es[(i*7+g*3)%200])
				}
			}
			old := runtime.GOMAXPROCS(4)
			gc := debug.SetGCPercent(-1) // pooled scratch objects survive only without collections
			p.run(es)
			var fallbacks int64
			verifOnFallback = func(off, bs int) { atomic.AddInt64(&fallbacks, 1) }
			meet := make(chan struct{})
			var arrived int32
			type res struct {
				all   bool
				valid []bool
				err   error
				pv    interface{}
			}
			var out [2]res
			var wg sync.WaitGroup
			for g := 0; g < 2; g++ {
				wg.Add(1)
				go func(g int) {
					defer wg.Done()
					pubs := make([]PublicKey, len(big[g]))
					msgs := make([][]byte, len(big[g]))
					sigs := make([][]byte, len(big[g]))
					for i, e := range big[g] {
						pubs[i], msgs[i], sigs[i] = e.key, e.msg, e.sig
					}
					rd := &meetReader{r: rt.NewRng(int64(g)+9, "par"), meet: meet, arrived: &arrived}
					defer func() {
						if r := recover(); r != nil {
							out[g].pv = r
						}
					}()
					out[g].all, out[g].valid, out[g].err = VerifyBatch(rd, pubs, msgs, sigs, &Options{})
				}(g)
			}
			wg.Wait()
			verifOnFallback = nil
			debug.SetGCPercent(gc)
			runtime.GOMAXPROCS(old)
			c.Step(2)
			bad := ""
			for g := 0; g < 2; g++ {
				if out[g].pv != nil || out[g].err != nil || !out[g].all || len(out[g].valid) != 1536 {
					bad = fmt.Sprintf("goroutine %d: all=%v err=%v panic=%v", g, out[g].all, out[g].err, out[g].pv)
				}
			}
			d := map[string]interface{}{"before": p.name, "fallbacks": fallbacks}
			if bad != "" {
				c.Violation("C17 parallel valid batch rejected", fmt.Sprintf("after [%s], two all-valid batches of 1536 verified at the same time: %s", p.name, bad), d)
			} else if fallbacks != 0 {
				c.Class("parallel/fallback")
				c.Violation("C17 parallel fallback used", fmt.Sprintf("after [%s], two all-valid batches of 1536 verified at the same time needed the per-signature fallback for %d chunks", p.name, fallbacks), d)
			} else {
				c.Class("parallel/no-fallback")
			}
		}
	}
}

// failAfterReader delivers n bytes, then fails.
type failAfterReader struct{ n int }

func (f *failAfterReader) Read(p []byte) (int, error) {
	if f.n <= 0 {
		return 0, errors.New("entropy source failed")
	}
	k := len(p)
	if k > f.n {
		k = f.n
	}
	for i := 0; i < k; i++ {
		p[i] = byte(f.n*31 + i)
	}
	f.n -= k
	return k, nil
}

// meetReader makes the two goroutines meet inside their first Read, then delivers.
type meetReader struct {
	r       io.Reader
	meet    chan struct{}
	arrived *int32
	met     bool
}

func (m *meetReader) Read(p []byte) (int, error) {
	if !m.met {
		m.met = true
		if atomic.AddInt32(m.arrived, 1) == 2 {
			close(m.meet)
		}
		<-m.meet
	}
	return m.r.Read(p)
}

// jobC17Mixed: a valid chunk is accepted by the batch equation itself whatever the previous chunk of
// the same call left behind - in particular after a chunk that was rejected (non-neutral sum in the
// shared output point, heap in its mid-reduction state).
func jobC17Mixed(c *rt.Ctx) {
	type shape struct {
		n   int
		bad []int // chunks holding one bad entry
	}
	shapes := []shape{{68, []int{0}}, {72, []int{0}}, {128, []int{0}}, {132, []int{0}}, {132, []int{1}}, {200, []int{0}}, {200, []int{1}}, {200, []int{0, 1}}, {200, []int{0, 2}}, {196, []int{0, 1, 2}}}
	tails := []string{"rng", "zero", "one", "ff"}
	for si, sh := range shapes {
		for ti, tail := range tails {
			for vi, vs := range vAll {
				if !c.Thorough() && (si+ti)%len(vAll) != vi {
					continue
				}
				if !c.Take() {
					continue
				}
				entries := append([]triple{}, fillers(vs, sh.n)...)
				lastBad := 0
				wantOff := map[int]bool{}
				badAt := map[int]bool{}
				for _, ch := range sh.bad {
					p := 64*ch + 3 + ch
					entries[p].sig = append([]byte{}, entries[p].sig...)
					entries[p].sig[40] ^= 2
					badAt[p] = true
					wantOff[64*ch] = true
					if ch > lastBad {
						lastBad = ch
					}
				}
				// randomisers: pseudo-random for every chunk up to the last bad one, then the tail pattern
				rd := &tailReader{r: rt.NewRng(c.Seed, fmt.Sprintf("mixed-%d", si)), head: 1024 * (lastBad + 1), tail: tail}
				var offs []int
				verifOnFallback = func(off, bs int) { offs = append(offs, off) }
				all, valid, err, pv := implBatchReader(entries, vs, false, rd)
				verifOnFallback = nil
				c.Step(1)
				c.Class("e2e/valid-chunk-after-rejected-chunk")
				c.Distinct(fmt.Sprintf("mixed %d %s %v", si, tail, vs), true)
				d := map[string]interface{}{"n": sh.n, "bad_chunks": fmt.Sprint(sh.bad), "tail_entropy": tail, "variant": vs.String(), "fallback_offsets": fmt.Sprint(offs), "all": all, "err": fmt.Sprint(err), "panic": fmt.Sprint(pv)}
				bad := pv != nil || err != nil || all || len(valid) != sh.n
				if !bad {
					for i, v := range valid {
						if v == badAt[i] {
							bad = true
						}
					}
				}
				if bad {
					c.Violation("C17 e2e mixed batch verdicts", fmt.Sprintf("batch of %d with one bad entry in chunks %v (tail entropy %s): wrong verdicts", sh.n, sh.bad, tail), d)
					continue
				}
				for _, o := range offs {
					if !wantOff[o] {
						c.Violation("C17 e2e fallback used", fmt.Sprintf("batch of %d with one bad entry in chunks %v (tail entropy %s): the all-valid chunk at offset %d fell back to per-signature verification", sh.n, sh.bad, tail, o), d)
						break
					}
				}
			}
		}
	}
}

// tailReader: head bytes from r, then a fixed pattern ("rng": keep r; "zero"; "one": every 128-bit
// randomiser equal to 1; "ff").
type tailReader struct {
	r    io.Reader
	head int
	tail string
	pos  int
}

func (t *tailReader) Read(p []byte) (int, error) {
	for i := range p {
		var b [1]byte
		switch {
		case t.pos < t.head || t.tail == "rng":
			t.r.Read(b[:])
		case t.tail == "one" && t.pos%16 == 0:
			b[0] = 1
		case t.tail == "ff":
			b[0] = 0xff
		}
		p[i] = b[0]
		t.pos++
	}
	return len(p), nil
}

type constReader byte

func (r constReader) Read(p []byte) (int, error) {
	for i := range p {
		p[i] = byte(r)
	}
	return len(p), nil
}
