package ed25519

import (
	"encoding/binary"
	"fmt"
	"math/big"

	ref "github.com/oasisprotocol/ed25519/internal/zzverifref"
	rt "github.com/oasisprotocol/ed25519/internal/zzverifrt"
)

func init() { rt.Register("C04", jobC04) }

type batchShape struct{ pos, n int }

// checkModes compares the triple in the four verifier modes with the model.
// keyPrefix identifies the sub-space; returns number of mismatches.
func checkModes(c *rt.Ctx, keyPrefix string, t triple, vs variantSpec, shapes []batchShape, extra map[string]interface{}) int {
	bad := 0
	S := new(big.Int)
	if len(t.sig) == 64 {
		S = ref.LE(t.sig[32:])
	}
	for _, zip := range []bool{false, true} {
		exp, cause := modelVerify(t, vs, zip)
		mode := "default"
		if zip {
			mode = "zip215"
		}
		c.Class(fmt.Sprintf("%s/%s/%s", mode, cause, sClass(S)))
		got, pv := implSingle(t, vs, zip)
		c.Step(1)
		if pv != nil || got != exp {
			bad++
			d := hexd(t)
			d["variant"], d["mode"], d["expected"], d["observed"], d["cause"], d["panic"] = vs.String(), "single-"+mode, exp, got, string(cause), fmt.Sprint(pv)
			for k, v := range extra {
				d[k] = v
			}
			c.Violation(fmt.Sprintf("%s mode=single-%s sclass=%s exp=%s got=%s", keyPrefix, mode, sClass(S), boolStr(exp), boolStr(got)),
				fmt.Sprintf("single verification (%s, %s) returned %v, model says %v (%s)", mode, vs, got, exp, cause), d)
		}
		// the accepted twin of the entry: same key, message and R with the scalar half reduced mod L
		var twin *triple
		if len(t.sig) == 64 && S.Cmp(ref.L) >= 0 {
			tw := triple{t.key, t.msg, append(append([]byte{}, t.sig[:32]...), ref.ToLE(new(big.Int).Mod(S, ref.L), 32)...)}
			if ok, _ := modelVerify(tw, vs, zip); ok {
				twin = &tw
			}
		}
		all4 := append(append(append(append([]batchShape{}, shapes...), shapes...), shapes...), shapes...)
		for shi, sh := range all4 {
			entries := batchWith(t, sh.pos, sh.n, vs)
			// second pass over the shapes: an earlier entry of the same chunk has a wrong-length
			// signature (the scalar loop stops there and the chunk goes to the fallback)
			// third and fourth pass: the entry right before the one under test is its accepted twin
			// (a verdict must not be carried over between entries that share key, message and R)
			brk := -1
			if shi >= 2*len(shapes) {
				if twin == nil || sh.pos%64 == 0 || sh.pos < 1 {
					continue
				}
				entries[sh.pos-1] = *twin
			}
			if (shi/len(shapes))%2 == 1 {
				brk = (sh.pos / 64) * 64
				if brk == sh.pos || (shi >= 2*len(shapes) && brk == sh.pos-1) {
					continue
				}
				if shi >= 2*len(shapes) {
					// (here the chunk reaches the fallback through a failing batch equation: every loop runs)
					entries[brk] = triple{entries[brk].key, append(append([]byte{}, entries[brk].msg...), 0x01), entries[brk].sig}
				} else {
					entries[brk] = triple{entries[brk].key, entries[brk].msg, entries[brk].sig[:63]}
				}
			}
			rnd := rt.NewRng(c.Seed, fmt.Sprintf("c04-%d-%d", sh.pos, sh.n))
			all, valid, err, pv := implBatch(entries, vs, zip, rnd)
			c.Step(1)
			okShape := pv == nil && err == nil && len(valid) == sh.n
			if okShape {
				and := true
				for i, v := range valid {
					want := i != brk
					if i == sh.pos {
						want = exp
					}
					if v != want {
						okShape = false
					}
					and = and && v
				}
				if all != and {
					okShape = false
				}
			}
			if !okShape {
				bad++
				d := hexd(t)
				d["variant"], d["mode"], d["expected"], d["valid"], d["all"], d["err"], d["panic"], d["pos"], d["n"] = vs.String(), "batch-"+mode, exp, fmt.Sprint(valid), all, fmt.Sprint(err), fmt.Sprint(pv), sh.pos, sh.n
				c.Violation(fmt.Sprintf("%s mode=batch-%s sclass=%s exp=%s", keyPrefix, mode, sClass(S), boolStr(exp)),
					fmt.Sprintf("batch verification (%s, %s, position %d of %d) reported %v / all=%v, model says entry=%v, fillers valid", mode, vs, sh.pos, sh.n, valid, all, exp), d)
			}
		}
	}
	return bad
}

func jobC04(c *rt.Ctx) {
	c.Require("a/lt", "a/ge", "a/top-slice-lt", "zip215/accept/2^252<=S<L", "zip215/accept/S<2^252", "zip215/S>=L/L<=S<2^253", "zip215/S>=L/S>=2^253", "default/accept/S<2^252", "default/S>=L/L<=S<2^253")
	// (a) scMinimal on the word-class alphabet -------------------------------------------------
	ow := [4]uint64{0x5812631a5cf5d3ed, 0x14def9dea2f79cd6, 0, 0x1000000000000000}
	var buf [32]byte
	for i0 := 0; i0 < 7; i0++ {
		for i1 := 0; i1 < 7; i1++ {
			for i2 := 0; i2 < 7; i2++ {
				for i3 := 0; i3 < 7; i3++ {
					idx := [4]int{i0, i1, i2, i3}
					for tb := -1; tb < 256; tb++ {
						if !c.Take() {
							continue
						}
						for w := 0; w < 4; w++ {
							o := ow[w]
							v := [7]uint64{0, 1, o - 1, o, o + 1, 1 << 63, ^uint64(0)}[idx[w]]
							binary.LittleEndian.PutUint64(buf[8*w:], v)
						}
						if tb >= 0 {
							buf[31] = byte(tb)
						}
						S := ref.LE(buf[:])
						exp := S.Cmp(ref.L) < 0
						got := scMinimal(buf[:])
						c.Step(1)
						top := S.Cmp(pow2(252)) >= 0
						c.DistinctB(top, []byte("a"), buf[:])
						switch {
						case exp && top:
							c.Class("a/top-slice-lt")
						case exp:
							c.Class("a/lt")
						default:
							c.Class("a/ge")
						}
						if c.WantSample() && top && exp {
							c.Sample(map[string]interface{}{"space": "a:scMinimal", "S": ref.Hex(buf[:]), "expected": exp, "observed": got})
						}
						if got != exp {
							c.Violation(fmt.Sprintf("C04a scMinimal sclass=%s exp=%v", sClass(S), exp),
								fmt.Sprintf("scMinimal(%x) = %v, but S < L is %v", buf[:], got, exp),
								map[string]interface{}{"S": ref.Hex(buf[:]), "expected": exp, "observed": got})
						}
					}
				}
			}
		}
	}
	// (b) end to end: small-order key, arbitrary S, R = [S mod L]B + T_j ----------------------
	SB := alphaSB()
	var tors [][]byte
	for i := 0; i < 8; i++ {
		tors = append(tors, ref.Encodings(ref.Torsion(i))...)
	}
	if len(tors) != 14 {
		c.Fail("expected 14 torsion encodings, got %d", len(tors))
		return
	}
	js := []int{0, 3}
	nmsg := 1
	if c.Thorough() {
		js = []int{0, 1, 2, 3, 4, 5, 6, 7}
		nmsg = 2
	}
	for ki, key := range tors {
		for _, S := range SB {
			for _, j := range js {
				for _, vs := range vAll {
					for mi := 0; mi < nmsg; mi++ {
						if !c.Take() {
							continue
						}
						msg := msgOf(mi+1, vs)
						// A is pure torsion: [h]A is torsion, killed by the cofactor; R = [S]B + T_j.
						R := ptOf(new(big.Int).Mod(S, ref.L), j)
						encR := ref.Encodings(R)
						sig := append(append([]byte{}, encR[0]...), ref.ToLE(S, 32)...)
						t := triple{key, msg, sig}
						expZip, cause := modelVerify(t, vs, true)
						if expZip != (S.Cmp(ref.L) < 0) {
							c.Fail("construction self-check: model verdict %v (%s) for S=%s", expZip, cause, S)
							return
						}
						var shapes []batchShape
						if j == js[0] && mi == 0 {
							shapes = []batchShape{{0, 1}, {1, 2}, {2, 3}, {0, 4}, {3, 4}, {4, 5}, {5, 6}, {6, 7}}
							if ki == 0 || c.Thorough() {
								shapes = append(shapes, batchShape{63, 65}, batchShape{64, 65}, batchShape{64, 130}, batchShape{67, 68}, batchShape{69, 70}, batchShape{129, 132})
							}
						}
						c.DistinctB(true, []byte("b"), key, sig, msg, []byte(vs.String()))
						if c.WantSample() && S.Cmp(pow2(252)) >= 0 {
							c.Sample(map[string]interface{}{"space": "b:small-order-key", "key": ref.Hex(key), "sig": ref.Hex(sig), "variant": vs.String(), "model_zip215": expZip})
						}
						checkModes(c, "C04b small-order-key", t, vs, shapes, nil)
					}
				}
			}
		}
	}
	// (c) honest keys: S accepted, S + kL rejected for every k with S + kL < 2^256 -------------
	nseeds := 4
	if c.Thorough() {
		nseeds = 16
	}
	for si := 0; si < nseeds; si++ {
		for _, vs := range vAll {
			for k := 0; k <= 15; k++ {
				if !c.Take() {
					continue
				}
				t := honestTriple(si, msgOf(si, vs), vs)
				S := ref.LE(t.sig[32:])
				S.Add(S, bmulL(int64(k)))
				if S.BitLen() > 256 {
					continue
				}
				copy(t.sig[32:], ref.ToLE(S, 32))
				var shapes []batchShape
				if k <= 2 || k == 15 {
					shapes = []batchShape{{1, 4}, {64, 68}}
				}
				c.DistinctB(true, []byte("c"), t.key, t.sig)
				checkModes(c, "C04c honest+kL", t, vs, shapes, map[string]interface{}{"k": k})
			}
		}
	}
	// (c') the same under LONG messages (16 KiB, 40000, 65536, 70000 bytes; pure and ctx): admissibility
	// of S must not depend on how much there is to hash (checks reordered or skipped for long inputs)
	c.Require("c/long-message")
	for li, L := range []int{16384, 40000, 65536, 70000} {
		for vi, vs := range []variantSpec{vPure, vCtx} {
			for k := 0; k <= 15; k++ {
				if !c.Thorough() && k > 2 && k != 15 && (li+vi+k)%4 != 0 {
					continue
				}
				if !c.Take() {
					continue
				}
				c.Class("c/long-message")
				t := honestTriple(30+li, msgLen(L, li+vi), vs)
				S := ref.LE(t.sig[32:])
				S.Add(S, bmulL(int64(k)))
				if S.BitLen() > 256 {
					continue
				}
				copy(t.sig[32:], ref.ToLE(S, 32))
				var shapes []batchShape
				if k <= 1 {
					shapes = []batchShape{{1, 4}}
				}
				c.DistinctB(true, []byte("c-long"), t.key, t.sig, []byte{byte(li), byte(vi)})
				checkModes(c, "C04c honest+kL long-message", t, vs, shapes, map[string]interface{}{"k": k, "msg_len": L})
			}
		}
	}
	// (d) uniqueness: perturbations of S of accepted triples ------------------------------------
	nacc := 2
	if c.Thorough() {
		nacc = 8
	}
	for ai := 0; ai < nacc; ai++ {
		vs := vAll[ai%3]
		var base triple
		if ai%2 == 0 {
			base = honestTriple(40+ai, msgOf(ai, vs), vs)
		} else {
			base = mkTriple(a1, ai%8, 0, big.NewInt(int64(5+ai)), (ai+3)%8, 0, msgOf(ai, vs), vs)
		}
		S0 := ref.LE(base.sig[32:])
		var alts []*big.Int
		for i := uint(0); i < 256; i++ {
			x := new(big.Int).Set(S0)
			x.SetBit(x, int(i), x.Bit(int(i))^1)
			alts = append(alts, x)
		}
		alts = append(alts, SB...)
		for _, S := range alts {
			if !c.Take() {
				continue
			}
			t := triple{base.key, base.msg, append(append([]byte{}, base.sig[:32]...), ref.ToLE(S, 32)...)}
			var shapes []batchShape
			if S.Bit(0) == 0 && S.Bit(1) == 1 && S.Bit(2) == 0 {
				shapes = []batchShape{{2, 5}}
			}
			c.DistinctB(true, []byte("d"), t.key, t.sig)
			checkModes(c, "C04d uniqueness", t, vs, shapes, nil)
		}
	}
	// (e) uniqueness against PAIRS: two entries with other scalar halves S1 + d and S2 - d (both below L,
	// each rejected alone) in one batch - at every pair of positions of batches of 4..9 and at the last
	// two / first two / first-and-last positions of each chunk of 64..133 - are both rejected (their
	// errors cancel in the batch equation exactly when the two entries got the same randomiser)
	c.Require("e/compensating-pairs")
	shift := func(t triple, d *big.Int) triple {
		S := ref.LE(t.sig[32:])
		S.Add(S, d)
		S.Mod(S, ref.L)
		return triple{t.key, t.msg, append(append([]byte{}, t.sig[:32]...), ref.ToLE(S, 32)...)}
	}
	for _, n := range []int{4, 5, 6, 7, 8, 9, 64, 65, 68, 69, 70, 133} {
		var pairs [][2]int
		if n <= 9 {
			for i := 0; i < n; i++ {
				for j := i + 1; j < n; j++ {
					pairs = append(pairs, [2]int{i, j})
				}
			}
		} else {
			last := ((n - 1) / 64) * 64
			if n-last < 4 {
				last -= 64
			}
			for _, pr := range [][2]int{{0, 1}, {62, 63}, {0, 63}, {n - 2, n - 1}, {last, n - 1}, {last, last + 1}} {
				if pr[0] >= 0 && pr[1] < n && pr[0] < pr[1] {
					pairs = append(pairs, pr)
				}
			}
		}
		for pi, pr := range pairs {
			for di, d := range []*big.Int{big.NewInt(1), new(big.Int).Lsh(big.NewInt(1), 128), new(big.Int).Rsh(ref.L, 1)} {
				if !c.Take() {
					continue
				}
				vs := vAll[(pi+di+n)%3]
				zip := (pi+di)%2 == 1
				c.Class("e/compensating-pairs")
				c.Distinct(fmt.Sprintf("e %d %d %d", n, pi, di), true)
				es := append([]triple{}, fillers(vs, n)...)
				es[pr[0]] = shift(es[pr[0]], d)
				es[pr[1]] = shift(es[pr[1]], new(big.Int).Neg(d))
				e0, _ := modelVerify(es[pr[0]], vs, zip)
				e1, _ := modelVerify(es[pr[1]], vs, zip)
				all, valid, err, pv := implBatch(es, vs, zip, rt.NewRng(c.Seed, fmt.Sprintf("c04e-%d-%d", n, pi)))
				c.Step(1)
				bad := pv != nil || err != nil || len(valid) != n || all || e0 || e1
				if !bad {
					for i, v := range valid {
						bad = bad || v != (i != pr[0] && i != pr[1])
					}
				}
				if bad {
					c.Violation("C04e compensating pair", fmt.Sprintf("batch of %d (%s, zip215=%v) with scalar halves S+d at %d and S-d at %d: valid=%v all=%v err=%v panic=%v (model: both rejected: %v)", n, vs, zip, pr[0], pr[1], valid, all, err, pv, !e0 && !e1),
						map[string]interface{}{"n": n, "positions": fmt.Sprint(pr), "d": d.String(), "variant": vs.String(), "zip215": zip})
				}
			}
		}
	}
}
