package ed25519

import (
	cryptorand "crypto/rand"
	"crypto/sha512"
	"bytes"
	"crypto"
	stded "crypto/ed25519"
	"errors"
	"fmt"
	"io"

	ref "github.com/oasisprotocol/ed25519/internal/zzverifref"
	rt "github.com/oasisprotocol/ed25519/internal/zzverifrt"
)

var errC14 = errors.New("custom reader error")

// patReader delivers data according to a pattern of read sizes and fails after failAfter bytes.
type patReader struct {
	data      []byte
	pat       []int // bytes per Read call, cycled; 0 = as many as asked
	call      int
	off       int
	failAfter int   // -1: never fail; else after this many bytes were delivered
	failErr   error // error to return
	withData  bool  // return the error together with the last bytes
	transient bool  // the error is reported once; later calls deliver data again
	consumed  int
}

func (r *patReader) Read(p []byte) (int, error) {
	n := len(p)
	if len(r.pat) > 0 {
		k := r.pat[r.call%len(r.pat)]
		if k < 0 {
			// a legal "no progress, no error" answer: io.ReadFull must simply ask again
			r.call++
			return 0, nil
		}
		if k > 0 && k < n {
			n = k
		}
	}
	r.call++
	if len(r.data)-r.off < n {
		n = len(r.data) - r.off
	}
	if r.failAfter >= 0 {
		left := r.failAfter - r.off
		if left <= 0 {
			if r.transient {
				r.failAfter = -1
			}
			return 0, r.failErr
		}
		if n >= left {
			n = left
			copy(p, r.data[r.off:r.off+n])
			r.off += n
			r.consumed += n
			if r.withData {
				if r.transient {
					r.failAfter = -1
				}
				return n, r.failErr
			}
			return n, nil
		}
	}
	if n == 0 {
		return 0, io.EOF
	}
	copy(p, r.data[r.off:r.off+n])
	r.off += n
	r.consumed += n
	return n, nil
}

// ctrStream is a deterministic stand-in for the process-wide entropy source: byte i of the stream is a
// fixed function of i, every read is recorded.
type ctrStream struct {
	pos   int
	calls int
}

func ctrBlock(i int) [64]byte {
	var b [8]byte
	for j := range b {
		b[j] = byte(uint64(i) >> (8 * uint(j)))
	}
	return sha512.Sum512(append([]byte("verif entropy stream"), b[:]...))
}

func (s *ctrStream) at(off, n int) []byte {
	out := make([]byte, 0, n)
	for len(out) < n {
		blk := ctrBlock(off / 64)
		out = append(out, blk[off%64])
		off++
	}
	return out
}

func (s *ctrStream) Read(p []byte) (int, error) {
	copy(p, s.at(s.pos, len(p)))
	s.pos += len(p)
	s.calls++
	return len(p), nil
}

// jobC14DefaultSource: GenerateKey(nil) takes its seed from crypto/rand.Reader (documented). With that
// package variable replaced by a recorded deterministic stream, a LONG run of calls (3000; thorough:
// 70000, past the 256th, 4096th and 65536th call of the process) must return, call after call, the key
// of 32 stream bytes that no other call used: the i-th key is NewKeyFromSeed of bytes [32i, 32i+32)
// (an implementation that reads ahead is tolerated as long as each key comes from its own 32 bytes of
// what was read).
func jobC14DefaultSource(c *rt.Ctx) {
	c.Require("gen/default-source")
	if !c.Take() {
		return
	}
	n := 3000
	if c.Thorough() {
		n = 70000
	}
	st := &ctrStream{}
	saved := cryptorand.Reader
	cryptorand.Reader = st
	defer func() { cryptorand.Reader = saved }()
	used := map[int]bool{}
	for i := 0; i < n; i++ {
		pub, priv, err := GenerateKey(nil)
		c.Step(1)
		if err != nil || len(priv) != 64 || len(pub) != 32 {
			c.Violation("C14 default-source call", fmt.Sprintf("GenerateKey(nil) call %d: err=%v key lengths %d/%d", i+1, err, len(pub), len(priv)), map[string]interface{}{"call": i + 1})
			return
		}
		seed := priv.Seed()
		off := 32 * i
		if !bytes.Equal(seed, st.at(off, 32)) {
			off = -1
			consumed := st.at(0, st.pos)
			for o := 0; o+32 <= len(consumed); o++ {
				if bytes.Equal(consumed[o:o+32], seed) {
					off = o
					break
				}
			}
		}
		want := NewKeyFromSeed(append([]byte{}, seed...))
		overlap := false
		for o := off - 31; o <= off+31 && off >= 0; o++ {
			overlap = overlap || used[o]
		}
		if off < 0 || overlap || !bytes.Equal(priv, want) || !bytes.Equal(pub, want[32:]) {
			c.Violation("C14 default-source seed", fmt.Sprintf("GenerateKey(nil) call %d of the process: the key's seed %x is not 32 fresh bytes of what crypto/rand.Reader delivered (offset %d, reused %v, %d bytes read in %d reads)", i+1, seed, off, overlap, st.pos, st.calls),
				map[string]interface{}{"call": i + 1, "seed": ref.Hex(seed), "stream_offset": off, "bytes_read": st.pos})
			return
		}
		used[off] = true
	}
	c.Class("gen/default-source")
	c.Distinct("default-source", true)
	c.Extra("default_source_calls", int64(n))
	c.Extra("default_source_bytes_read", int64(st.pos))
}

func jobC14(c *rt.Ctx) {
	c.Require("gen/ok", "gen/fail", "equal/flip", "equal/same", "equal/foreign", "accessor")
	jobC14DefaultSource(c)
	// a reader that fills the buffer from ANOTHER goroutine (an entropy daemon, a request queue) while the
	// calling goroutine's stack is relocated in between (the Read method recurses deeply before the
	// fill): the 32 bytes delivered are the seed of the returned key, wherever the buffer lives
	c.Require("gen/handoff-reader")
	for _, depth := range []int{0, 1 << 10, 16 << 10, 512 << 10} {
		if !c.Take() {
			continue
		}
		c.Class("gen/handoff-reader")
		c.Distinct(fmt.Sprintf("handoff %d", depth), true)
		seed := make([]byte, 32)
		for i := range seed {
			seed[i] = byte(i*5 + 1 + depth>>10)
		}
		rd := &handoffReader{data: seed, growBytes: depth}
		done := make(chan struct{})
		var pub PublicKey
		var priv PrivateKey
		var err error
		go func() { // a fresh goroutine: small stack, sure to be relocated by the recursion
			defer close(done)
			pub, priv, err = GenerateKey(rd)
		}()
		<-done
		c.Step(1)
		want := stded.NewKeyFromSeed(seed)
		if err != nil || !bytes.Equal(priv, want) || !bytes.Equal(pub, want[32:]) {
			c.Violation("C14 generate handoff-reader", fmt.Sprintf("GenerateKey with a reader that fills its buffer from another goroutine after the caller's stack grew by %d bytes: err=%v, key differs from NewKeyFromSeed(delivered bytes): seed part %x, delivered %x", depth, err, []byte(priv[:minI(32, len(priv))]), seed),
				map[string]interface{}{"stack_growth_bytes": depth, "delivered": ref.Hex(seed), "observed_key": ref.Hex(priv)})
		}
	}
	// a reader whose dynamic value is a nil POINTER with a usable Read method is a reader like any other
	// (only the untyped nil selects crypto/rand): its 32 bytes are the seed
	c.Require("gen/typed-nil-reader")
	if c.Take() {
		c.Class("gen/typed-nil-reader")
		c.Distinct("typed-nil", true)
		var tn *nilSafeReader
		pub, priv, err := GenerateKey(tn)
		pub2, priv2, err2 := GenerateKey(tn)
		c.Step(2)
		seed := make([]byte, 32)
		for i := range seed {
			seed[i] = byte(i + 1)
		}
		want := stded.NewKeyFromSeed(seed)
		if err != nil || err2 != nil || !bytes.Equal(priv, want) || !bytes.Equal(pub, want[32:]) || !bytes.Equal(priv2, want) || !bytes.Equal(pub2, want[32:]) {
			c.Violation("C14 generate typed-nil-reader", fmt.Sprintf("GenerateKey with a reader that is a nil pointer with a working Read method: err=%v/%v, key %x, expected NewKeyFromSeed of the 32 bytes it delivers (%x)", err, err2, []byte(priv), []byte(want)), nil)
		}
	}
	// results are the caller's to OVERWRITE: a key returned by NewKeyFromSeed / GenerateKey is changed in
	// place (public half flipped; wiped to zeros; overwritten with another key), then the same seed - and
	// the seed the mutated bytes now spell - is derived again: always NewKeyFromSeed's value for the seed
	// given (a cache that keeps the returned slice would hand the caller's edits back)
	c.Require("result-overwritten")
	for mut := 0; mut < 4; mut++ {
		for api := 0; api < 2; api++ {
			if !c.Take() {
				continue
			}
			c.Class("result-overwritten")
			c.Distinct(fmt.Sprintf("overwritten %d %d", mut, api), true)
			seed := make([]byte, 32)
			for i := range seed {
				seed[i] = byte(i*3 + 7 + mut)
			}
			derive := func(sd []byte) PrivateKey {
				if api == 0 {
					return NewKeyFromSeed(append([]byte{}, sd...))
				}
				_, k, err := GenerateKey(bytes.NewReader(append([]byte{}, sd...)))
				if err != nil {
					return nil
				}
				return k
			}
			k1 := derive(seed)
			other := stded.NewKeyFromSeed(bytes.Repeat([]byte{0x42}, 32))
			switch mut {
			case 0:
				k1[40] ^= 0x10
			case 1:
				for i := range k1 {
					k1[i] = 0
				}
			case 2:
				copy(k1, other)
			case 3:
				k1[3] ^= 1 // the seed half
			}
			c.Step(3)
			for ri, sd := range [][]byte{seed, append([]byte{}, k1[:32]...), make([]byte, 32)} {
				got := derive(sd)
				want := stded.NewKeyFromSeed(sd)
				if !bytes.Equal(got, want) {
					c.Violation("C14 result-overwritten", fmt.Sprintf("after the caller overwrote a returned key in place (mutation %d), deriving seed %x again (api %d, re-derivation %d) gives %x, NewKeyFromSeed's value is %x", mut, sd, api, ri, []byte(got), []byte(want)),
						map[string]interface{}{"mutation": mut, "api": api, "seed": ref.Hex(sd)})
					break
				}
			}
		}
	}
	// held results: keys, Seed() and Public() values of 40 GenerateKey calls kept by the caller, each then
	// used as the caller's own buffer; every other one still reads as it must
	c.Require("held-results")
	if c.Take() {
		c.Class("held-results")
		c.Distinct("held", true)
		var got, want [][]byte
		for i := 0; i < 40; i++ {
			seed := make([]byte, 32)
			seed[0], seed[5] = byte(i), 0x14
			pub, priv, err := GenerateKey(bytes.NewReader(seed))
			if err != nil {
				c.Violation("C14 held-results", "GenerateKey failed on a 32-byte reader", nil)
				break
			}
			std := stded.NewKeyFromSeed(seed)
			got = append(got, pub, priv, priv.Seed(), priv.Public().(PublicKey))
			want = append(want, append([]byte{}, std[32:]...), append([]byte{}, std...), append([]byte{}, seed...), append([]byte{}, std[32:]...))
		}
		c.Step(40)
		if j, i := heldResults(got, want); j >= 0 {
			c.Violation("C14 held-results", fmt.Sprintf("result %d (pub, priv, Seed(), Public() per key) changed or was wrong after the caller appended to result %d", j, i), map[string]interface{}{"held": j, "appended_to": i})
		}
	}
	pats := [][]int{{0}, {1}, {31, 1}, {16, 16}, {33}, {64}, {7, 0}, {-1, 5}, {-1, -1, 32}, {-1, 1}, {-1, -1, -1, -1, -1, 1}}
	stream := make([]byte, 96)
	for i := range stream {
		stream[i] = byte(i*11 + 5)
	}
	// GenerateKey over reader behaviours
	for pi, pat := range pats {
		for fa := -1; fa <= 33; fa++ {
			for fk := 0; fk < 5; fk++ {
				if fa < 0 && fk > 0 {
					continue
				}
				if !c.Take() {
					continue
				}
				r := &patReader{data: stream, pat: pat, failAfter: fa}
				switch fk {
				case 0:
					r.failErr = io.EOF
				case 1:
					r.failErr = errC14
				case 2:
					r.failErr = errC14
					r.withData = true
				case 3:
					// an error reported once together with some bytes; the source would deliver again
					r.failErr = errC14
					r.withData = true
					r.transient = true
				case 4:
					r.failErr = errC14
					r.transient = true
				}
				pub, priv, err := GenerateKey(r)
				c.Step(1)
				c.Distinct(fmt.Sprintf("gen %d %d %d", pi, fa, fk), true)
				// success iff 32 bytes are delivered before the failure point (ReadFull semantics:
				// an error delivered together with the 32nd byte is dropped by io.ReadFull)
				wantOK := fa < 0 || fa >= 32
				d := map[string]interface{}{"pattern": fmt.Sprint(pat), "fail_after": fa, "fail_kind": fk, "consumed": r.consumed, "err": fmt.Sprint(err)}
				if wantOK {
					c.Class("gen/ok")
					want := NewKeyFromSeed(stream[:32])
					std := stded.NewKeyFromSeed(stream[:32])
					if err != nil || !bytes.Equal(priv, want) || !bytes.Equal(pub, want[32:]) || !bytes.Equal(priv, std) || r.consumed != 32 {
						c.Violation("C14 generate ok-path", fmt.Sprintf("GenerateKey: err=%v consumed=%d (want 32) or key differs from NewKeyFromSeed(first 32 bytes)", err, r.consumed), d)
					}
					if len(pub) == 32 && len(priv) == 64 && &pub[0] == &priv[32] {
						c.Violation("C14 generate aliasing", "GenerateKey's public key aliases the private key", d)
					}
				} else {
					c.Class("gen/fail")
					bad := err == nil || pub != nil || priv != nil
					if !bad && fk >= 1 && !(errors.Is(err, errC14)) {
						bad = true
					}
					if !bad && fk == 0 && !(err == io.EOF || err == io.ErrUnexpectedEOF) {
						bad = true
					}
					if bad {
						c.Violation("C14 generate fail-path", fmt.Sprintf("GenerateKey with failing reader: pub=%v priv=%v err=%v", pub != nil, priv != nil, err), d)
					}
				}
				if c.WantSample() && fa >= 0 {
					c.Sample(d)
				}
			}
		}
	}
	// Equal
	for ki := 0; ki < 4; ki++ {
		k := NewKeyFromSeed(seedOf(80 + ki))
		pub := k.Public().(PublicKey)
		for bit := -1; bit < 512+256; bit++ {
			if !c.Take() {
				continue
			}
			c.Step(1)
			c.Distinct(fmt.Sprintf("eq %d %d", ki, bit), true)
			switch {
			case bit < 0:
				c.Class("equal/same")
				k2 := PrivateKey(append([]byte{}, k...))
				p2 := PublicKey(append([]byte{}, pub...))
				if !k.Equal(k2) || !pub.Equal(p2) || !k.Equal(k) || !k2.Equal(k) {
					c.Violation("C14 equal same", "Equal is false for byte-identical keys", nil)
				}
			case bit < 512:
				c.Class("equal/flip")
				k2 := PrivateKey(append([]byte{}, k...))
				k2[bit/8] ^= 1 << uint(bit%8)
				if k.Equal(k2) || k2.Equal(k) {
					c.Violation("C14 equal private flip", fmt.Sprintf("PrivateKey.Equal true for keys differing in bit %d", bit), map[string]interface{}{"bit": bit})
				}
			default:
				c.Class("equal/flip")
				b := bit - 512
				p2 := PublicKey(append([]byte{}, pub...))
				p2[b/8] ^= 1 << uint(b%8)
				if pub.Equal(p2) || p2.Equal(pub) {
					c.Violation("C14 equal public flip", fmt.Sprintf("PublicKey.Equal true for keys differing in bit %d", b), map[string]interface{}{"bit": b})
				}
			}
		}
		// two-byte differences: every pair of byte positions x {same mask at both (differences that cancel
		// under an xor-folded accumulator), +1/-1 (differences that cancel under a sum-folded one)}
		if ki == 0 {
			for _, which := range []string{"public", "private"} {
				base := []byte(pub)
				if which == "private" {
					base = []byte(k)
				}
				for i := 0; i < len(base); i++ {
					if !c.Take() {
						continue
					}
					c.Class("equal/flip2")
					c.Distinct(fmt.Sprintf("eq2 %s %d", which, i), true)
					for j := i + 1; j < len(base); j++ {
						for mi, m := range []byte{0x01, 0x80, 0xff, 0} {
							o := append([]byte{}, base...)
							if m != 0 {
								o[i] ^= m
								o[j] ^= m
							} else {
								o[i]++
								o[j]--
							}
							c.Step(1)
							var eq bool
							if which == "private" {
								eq = k.Equal(PrivateKey(o)) || PrivateKey(o).Equal(k)
							} else {
								eq = pub.Equal(PublicKey(o)) || PublicKey(o).Equal(pub)
							}
							if eq {
								c.Violation(fmt.Sprintf("C14 equal %s two-byte difference", which), fmt.Sprintf("%s key Equal is true for keys differing in bytes %d and %d (pattern %d)", which, i, j, mi),
									map[string]interface{}{"byte_i": i, "byte_j": j, "pattern": mi})
							}
						}
					}
				}
			}
		}
		if !c.Take() {
			continue
		}
		c.Class("equal/foreign")
		c.Step(1)
		c.Distinct(fmt.Sprintf("eqf %d", ki), true)
		kk := k
		foreign := []interface{}{[]byte(k), stded.PrivateKey(k), &kk, nil, pub, stded.PublicKey(pub), k[:63], "x", 5}
		for i, f := range foreign {
			var cp crypto.PrivateKey = f
			if k.Equal(cp) {
				c.Violation("C14 equal foreign private", fmt.Sprintf("PrivateKey.Equal true for foreign value #%d (%T)", i, f), nil)
			}
		}
		foreignP := []interface{}{[]byte(pub), stded.PublicKey(pub), &pub, nil, k, pub[:31], PrivateKey(pub)}
		for i, f := range foreignP {
			var cp crypto.PublicKey = f
			if pub.Equal(cp) {
				c.Violation("C14 equal foreign public", fmt.Sprintf("PublicKey.Equal true for foreign value #%d (%T)", i, f), nil)
			}
		}
		if k.Equal(PrivateKey(k[:63])) || pub.Equal(PublicKey(pub[:31])) || k.Equal(PrivateKey(append(append([]byte{}, k...), 0))) {
			c.Violation("C14 equal prefix", "Equal true for a prefix / extension", nil)
		}
		// a longer view that starts with the key (an open-ended slice into a packed array): every excess
		// length, in particular multiples of 256 (a length compared through a byte)
		for _, extra := range []int{1, 31, 32, 64, 255, 256, 257, 512, 65536} {
			lk := append(append([]byte{}, k...), make([]byte, extra)...)
			lp := append(append([]byte{}, pub...), make([]byte, extra)...)
			if k.Equal(PrivateKey(lk)) || PrivateKey(lk).Equal(k) || pub.Equal(PublicKey(lp)) || PublicKey(lp).Equal(pub) {
				c.Violation("C14 equal extension", fmt.Sprintf("Equal true for a key extended by %d bytes", extra), map[string]interface{}{"extra": extra})
			}
		}
	}
	// accessors
	ns := 64
	for si := 0; si < ns; si++ {
		if !c.Take() {
			continue
		}
		c.Class("accessor")
		c.Step(4)
		c.Distinct(fmt.Sprintf("acc %d", si), true)
		idx := si
		if si == ns-1 {
			idx = -1
		}
		seed := seedOf(idx)
		k := NewKeyFromSeed(seed)
		snap := append([]byte{}, k...)
		fail := func(what string) {
			c.Violation("C14 accessor "+what, "accessor coherence: "+what, map[string]interface{}{"seed": ref.Hex(seed)})
		}
		if !bytes.Equal(k[:32], seed) || !bytes.Equal(k[32:], refPublic(idx)) {
			fail("private key is not seed || public key")
		}
		p1 := k.Public().(PublicKey)
		s1 := k.Seed()
		if !bytes.Equal(p1, k[32:]) || !bytes.Equal(s1, seed) {
			fail("Public()/Seed() value")
		}
		for i := range p1 {
			p1[i] ^= 0xff
		}
		for i := range s1 {
			s1[i] ^= 0xff
		}
		if !bytes.Equal(k, snap) {
			fail("mutating accessor results changed the key (aliasing)")
		}
		p2 := k.Public().(PublicKey)
		s2 := k.Seed()
		if !bytes.Equal(p2, snap[32:]) || !bytes.Equal(s2, seed) {
			fail("second accessor call affected by mutation of the first result")
		}
		if !NewKeyFromSeed(k.Seed()).Equal(k) {
			fail("NewKeyFromSeed(k.Seed()) != k")
		}
		seedCopy := append([]byte{}, seed...)
		k3 := NewKeyFromSeed(seedCopy)
		seedCopy[0] ^= 1
		if !bytes.Equal(k3, snap) {
			fail("NewKeyFromSeed result aliases the seed argument")
		}
		// seed handed over as a sub-slice with spare capacity (e.g. the front of a larger buffer)
		big := make([]byte, 128)
		for j := range big {
			big[j] = 0xEE
		}
		copy(big[16:], seed)
		before := append([]byte{}, big...)
		k4 := NewKeyFromSeed(big[16:48])
		if !bytes.Equal(big, before) {
			fail("NewKeyFromSeed wrote into the caller's buffer beyond the seed")
		}
		for j := range big {
			big[j] = 0
		}
		if !bytes.Equal(k4, snap) {
			fail("NewKeyFromSeed result shares memory with the caller's seed buffer")
		}
		pub5, priv5, err5 := GenerateKey(bytes.NewReader(append(append([]byte{}, seed...), 1, 2, 3)))
		if err5 != nil || !bytes.Equal(priv5, snap) || !bytes.Equal(pub5, snap[32:]) {
			fail("GenerateKey(bytes.Reader over the seed) differs from NewKeyFromSeed")
		}
		if len(pub5) == 32 {
			pub5[0] ^= 0xff
			if !bytes.Equal(priv5, snap) {
				fail("GenerateKey's public key aliases its private key")
			}
		}
		// every returned slice is the caller's up to its CAPACITY (append writes there): overwriting the
		// spare capacity of one result must leave every other result, the key and the seed untouched
		pub6, priv6, _ := GenerateKey(bytes.NewReader(append([]byte{}, seed...)))
		k6 := NewKeyFromSeed(seed)
		p6 := k6.Public().(PublicKey)
		s6 := k6.Seed()
		results := [][]byte{pub6, priv6, k6, p6, s6}
		names := []string{"GenerateKey public key", "GenerateKey private key", "NewKeyFromSeed result", "Public() result", "Seed() result"}
		wantFull := [][]byte{snap[32:], snap, snap, snap[32:], seed}
		for ri := range results {
			full := results[ri][:cap(results[ri])]
			for j := len(results[ri]); j < len(full); j++ {
				full[j] = 0xEE
			}
			_ = append(results[ri], 0xEE, 0xEE, 0xEE)
			for oi := range results {
				if !bytes.Equal(results[oi], wantFull[oi]) {
					fail(fmt.Sprintf("writing into the spare capacity of the %s (len %d, cap %d) changed the %s", names[ri], len(results[ri]), cap(results[ri]), names[oi]))
				}
			}
			if !bytes.Equal(seed, seedOf(idx)) {
				fail("writing into the spare capacity of the " + names[ri] + " changed the seed argument")
			}
		}
	}
}

// handoffReader hands the buffer to a worker goroutine, grows the calling goroutine's stack by
// growBytes (which relocates it), and only then lets the worker fill the buffer.
type handoffReader struct {
	data      []byte
	off       int
	growBytes int
}

//go:noinline
func growStack(n int) byte {
	var pad [256]byte
	pad[n&255] = byte(n)
	if n <= 0 {
		return pad[0]
	}
	return growStack(n-256) + pad[(n+1)&255]
}

func (h *handoffReader) Read(p []byte) (int, error) {
	if h.off >= len(h.data) {
		return 0, io.EOF
	}
	fill := make(chan struct{})
	done := make(chan int)
	go func() {
		<-fill
		done <- copy(p, h.data[h.off:])
	}()
	growStack(h.growBytes)
	close(fill)
	n := <-done
	h.off += n
	return n, nil
}

// nilSafeReader: Read works on a nil receiver (delivers 1, 2, 3, ...).
type nilSafeReader struct{ _ int }

func (r *nilSafeReader) Read(p []byte) (int, error) {
	for i := range p {
		p[i] = byte(i + 1)
	}
	return len(p), nil
}
