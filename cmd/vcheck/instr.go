package main

import "fmt"

// instrument generates instrumented copies of the library sources (E3 "sched" / E4 "trace").
func instrument(work, cfg, mode string) (map[string]string, error) {
	return nil, fmt.Errorf("instrumentation mode %q not built yet", mode)
}
