package main

// Source instrumenter for E3 ("sched": hooks at every statement that touches a package-level
// variable of the library) and E4 ("trace": branch conditions, non-constant indices, variable-time
// primitives), plus the per-package registration of all package-level variables ("globals").
// Instrumented copies are generated from the CURRENT content of /repo's files (selected by
// `go list` for the build configuration) and supplied to the build through -overlay.

import (
	"bytes"
	"encoding/json"
	"fmt"
	"go/ast"
	"go/format"
	"go/importer"
	"go/parser"
	"go/token"
	"go/types"
	"io"
	"io/ioutil"
	"os"
	"os/exec"
	"path/filepath"
	"sort"
	"strconv"
	"strings"
)

type listPkg struct {
	ImportPath string
	Dir        string
	Export     string
	GoFiles    []string
	SFiles     []string
}

var repoPkgOrder = []string{"internal/curve25519", "internal/modm", "internal/ge25519", "", "extra/x25519"}

func repoImportPath(sub string) string {
	if sub == "" {
		return modPath
	}
	return modPath + "/" + sub
}

func isRepoPkg(path string) bool {
	return path == modPath || (strings.HasPrefix(path, modPath+"/") && !strings.Contains(path, "zzverif"))
}

func goList(cfg string) (map[string]*listPkg, error) {
	cmd := exec.Command("go", "list", "-export", "-deps", "-json", "-tags", cfgTags(cfg), "./...")
	cmd.Dir = repoDir
	cmd.Env = goEnv(cfg)
	var stderr bytes.Buffer
	cmd.Stderr = &stderr
	out, err := cmd.Output()
	if err != nil {
		return nil, fmt.Errorf("go list: %v\n%s", err, stderr.String())
	}
	pk := map[string]*listPkg{}
	dec := json.NewDecoder(bytes.NewReader(out))
	for {
		var p listPkg
		if err := dec.Decode(&p); err == io.EOF {
			break
		} else if err != nil {
			return nil, err
		}
		q := p
		pk[p.ImportPath] = &q
	}
	return pk, nil
}

type instrumenter struct {
	mode     string
	fset     *token.FileSet
	info     *types.Info
	pkg      *types.Package
	pkgShort string
	sites    []string // site id -> "file:line what"
	siteBase int
	uninstr  []string
	rtName   string
	changed  bool
	keep     map[string]bool // "pkg.Func" references to keep alive after call replacement
}

var rtImport = modPath + "/internal/zzverifrt"

func instrument(work, cfg, mode string) (map[string]string, error) {
	pkgs, err := goList(cfg)
	if err != nil {
		return nil, err
	}
	outDir := filepath.Join(work, "instr_"+cfg+"_"+mode)
	os.MkdirAll(outDir, 0755)
	repl := map[string]string{}
	fset := token.NewFileSet()
	imp := importer.ForCompiler(fset, "gc", func(path string) (io.ReadCloser, error) {
		p, ok := pkgs[path]
		if !ok || p.Export == "" {
			return nil, fmt.Errorf("no export data for %q", path)
		}
		return os.Open(p.Export)
	})
	arch := "amd64"
	if strings.HasPrefix(cfg, "386") {
		arch = "386"
	}
	siteBase := 0
	var allSites []string
	var allUninstr []string
	for _, sub := range repoPkgOrder {
		ip := repoImportPath(sub)
		lp, ok := pkgs[ip]
		if !ok {
			return nil, fmt.Errorf("package %s not listed", ip)
		}
		var files []*ast.File
		var names []string
		for _, f := range lp.GoFiles {
			full := filepath.Join(lp.Dir, f)
			af, err := parser.ParseFile(fset, full, nil, parser.ParseComments)
			if err != nil {
				return nil, err
			}
			files = append(files, af)
			names = append(names, full)
		}
		info := &types.Info{Uses: map[*ast.Ident]types.Object{}, Defs: map[*ast.Ident]types.Object{}, Types: map[ast.Expr]types.TypeAndValue{}}
		conf := types.Config{Importer: imp, Sizes: types.SizesFor("gc", arch)}
		tp, err := conf.Check(ip, fset, files, info)
		if err != nil {
			return nil, fmt.Errorf("type-checking %s: %v", ip, err)
		}
		in := &instrumenter{mode: mode, fset: fset, info: info, pkg: tp, pkgShort: tp.Name(), siteBase: siteBase, rtName: "zzverifrt"}
		pdir := filepath.Join(outDir, pkgKey(sub))
		os.MkdirAll(pdir, 0755)
		if mode == "sched" || mode == "trace" {
			for i, af := range files {
				in.changed = false
				in.keep = map[string]bool{}
				in.file(af)
				if !in.changed {
					continue
				}
				addImport(af, rtImport, in.rtName)
				for k := range in.keep {
					parts := strings.SplitN(k, ".", 2)
					af.Decls = append(af.Decls, &ast.GenDecl{Tok: token.VAR, Specs: []ast.Spec{&ast.ValueSpec{Names: []*ast.Ident{ast.NewIdent("_")}, Values: []ast.Expr{&ast.SelectorExpr{X: ast.NewIdent(parts[0]), Sel: ast.NewIdent(parts[1])}}}}})
				}
				var buf bytes.Buffer
				if err := format.Node(&buf, fset, af); err != nil {
					return nil, fmt.Errorf("printing %s: %v", names[i], err)
				}
				dst := filepath.Join(pdir, filepath.Base(names[i]))
				if err := ioutil.WriteFile(dst, buf.Bytes(), 0644); err != nil {
					return nil, err
				}
				repl[names[i]] = dst
			}
		}
		// globals registration file (all modes)
		gsrc := in.globalsFile(files)
		gdst := filepath.Join(pdir, "zz_verif_globals.go")
		if err := ioutil.WriteFile(gdst, gsrc, 0644); err != nil {
			return nil, err
		}
		repl[filepath.Join(lp.Dir, "zz_verif_globals.go")] = gdst
		allSites = append(allSites, in.sites...)
		allUninstr = append(allUninstr, in.uninstr...)
		siteBase += len(in.sites)
	}
	sj, _ := json.Marshal(map[string]interface{}{"sites": allSites, "uninstrumented": allUninstr})
	ioutil.WriteFile(filepath.Join(outDir, "sites.json"), sj, 0644)
	return repl, nil
}

func addImport(f *ast.File, path, name string) {
	for _, im := range f.Imports {
		if im.Path.Value == strconv.Quote(path) {
			return
		}
	}
	spec := &ast.ImportSpec{Name: ast.NewIdent(name), Path: &ast.BasicLit{Kind: token.STRING, Value: strconv.Quote(path)}}
	decl := &ast.GenDecl{Tok: token.IMPORT, Specs: []ast.Spec{spec}}
	// imports must come first
	f.Decls = append([]ast.Decl{decl}, f.Decls...)
	f.Imports = append(f.Imports, spec)
}

func (in *instrumenter) site(pos token.Pos, what string) int {
	p := in.fset.Position(pos)
	rel := strings.TrimPrefix(p.Filename, repoDir+"/")
	in.sites = append(in.sites, fmt.Sprintf("%s:%d %s", rel, p.Line, what))
	return in.siteBase + len(in.sites) - 1
}

// globalOf returns the qualified name if id refers to a package-level variable of a library package.
func (in *instrumenter) globalOf(id *ast.Ident) (string, bool) {
	obj := in.info.Uses[id]
	v, ok := obj.(*types.Var)
	if !ok || v.IsField() || v.Pkg() == nil || v.Parent() != v.Pkg().Scope() || !isRepoPkg(v.Pkg().Path()) {
		return "", false
	}
	return v.Pkg().Name() + "." + v.Name(), true
}

func (in *instrumenter) rtCall(fn string, args ...ast.Expr) *ast.CallExpr {
	return &ast.CallExpr{Fun: &ast.SelectorExpr{X: ast.NewIdent(in.rtName), Sel: ast.NewIdent(fn)}, Args: args}
}

func intLit(n int) ast.Expr { return &ast.BasicLit{Kind: token.INT, Value: strconv.Itoa(n)} }
func strLit(s string) ast.Expr {
	return &ast.BasicLit{Kind: token.STRING, Value: strconv.Quote(s)}
}

func (in *instrumenter) file(f *ast.File) {
	for _, d := range f.Decls {
		fd, ok := d.(*ast.FuncDecl)
		if !ok || fd.Body == nil {
			continue
		}
		if fd.Name.Name == "init" && in.mode == "sched" {
			continue // package initialisation runs before any harness thread exists
		}
		if in.mode == "sched" {
			in.schedBlock(fd.Body)
		} else {
			in.traceNode(fd.Body)
		}
	}
}

// ---------------------------------------------------------------------------------------------
// sched mode

// headerGlobals collects the library globals mentioned by the statement itself (not by nested
// statement lists, which are instrumented on their own); write is true for syntactic assignment.
func (in *instrumenter) headerGlobals(s ast.Stmt) map[string]bool {
	res := map[string]bool{}
	var reads func(n ast.Node)
	reads = func(n ast.Node) {
		if n == nil {
			return
		}
		ast.Inspect(n, func(x ast.Node) bool {
			switch y := x.(type) {
			case *ast.FuncLit:
				return false // body instrumented separately
			case *ast.BlockStmt:
				return false
			case *ast.Ident:
				if g, ok := in.globalOf(y); ok {
					if _, seen := res[g]; !seen {
						res[g] = false
					}
				}
			}
			return true
		})
	}
	root := func(e ast.Expr) *ast.Ident {
		for {
			switch y := e.(type) {
			case *ast.Ident:
				return y
			case *ast.IndexExpr:
				e = y.X
			case *ast.SliceExpr:
				e = y.X
			case *ast.SelectorExpr:
				if id, ok := y.X.(*ast.Ident); ok {
					if _, isPkg := in.info.Uses[id].(*types.PkgName); isPkg {
						return y.Sel
					}
				}
				e = y.X
			case *ast.ParenExpr:
				e = y.X
			case *ast.StarExpr:
				e = y.X
			default:
				return nil
			}
		}
	}
	write := func(e ast.Expr) {
		if id := root(e); id != nil {
			if g, ok := in.globalOf(id); ok {
				res[g] = true
			}
		}
	}
	switch y := s.(type) {
	case *ast.AssignStmt:
		reads(y)
		for _, l := range y.Lhs {
			write(l)
		}
	case *ast.IncDecStmt:
		reads(y)
		write(y.X)
	case *ast.ExprStmt, *ast.ReturnStmt, *ast.DeclStmt, *ast.GoStmt, *ast.DeferStmt, *ast.SendStmt:
		reads(y)
		ast.Inspect(y, func(x ast.Node) bool {
			if _, ok := x.(*ast.FuncLit); ok {
				return false
			}
			if c, ok := x.(*ast.CallExpr); ok {
				if id, ok := c.Fun.(*ast.Ident); ok && id.Name == "copy" && len(c.Args) == 2 {
					write(c.Args[0])
				}
			}
			return true
		})
	case *ast.IfStmt:
		reads(y.Init)
		reads(y.Cond)
	case *ast.ForStmt:
		reads(y.Init)
		reads(y.Cond)
		reads(y.Post)
	case *ast.RangeStmt:
		reads(y.X)
		if y.Tok == token.ASSIGN {
			if y.Key != nil {
				write(y.Key)
			}
			if y.Value != nil {
				write(y.Value)
			}
		}
	case *ast.SwitchStmt:
		reads(y.Init)
		reads(y.Tag)
		for _, cc := range y.Body.List {
			for _, e := range cc.(*ast.CaseClause).List {
				reads(e)
			}
		}
	case *ast.TypeSwitchStmt:
		reads(y.Init)
		reads(y.Assign)
	case *ast.LabeledStmt:
		return in.headerGlobals(y.Stmt)
	}
	return res
}

func (in *instrumenter) accessStmts(pos token.Pos, gl map[string]bool) []ast.Stmt {
	var names []string
	for g := range gl {
		names = append(names, g)
	}
	sort.Strings(names)
	var out []ast.Stmt
	for _, g := range names {
		w := "r"
		if gl[g] {
			w = "w"
		}
		id := in.site(pos, w+" "+g)
		fn := "Access"
		if gl[g] {
			fn = "AccessW"
		}
		out = append(out, &ast.ExprStmt{X: in.rtCall(fn, intLit(id), strLit(g))})
		in.changed = true
	}
	return out
}

func (in *instrumenter) schedList(list []ast.Stmt) []ast.Stmt {
	var out []ast.Stmt
	for _, s := range list {
		gl := in.headerGlobals(s)
		out = append(out, in.accessStmts(s.Pos(), gl)...)
		in.schedNested(s, gl)
		out = append(out, s)
	}
	return out
}

func (in *instrumenter) schedBlock(b *ast.BlockStmt) {
	if b != nil {
		b.List = in.schedList(b.List)
	}
}

// schedNested instruments the statement lists nested in s, and function literals anywhere in it.
func (in *instrumenter) schedNested(s ast.Stmt, hdr map[string]bool) {
	loopBody := func(b *ast.BlockStmt) {
		in.schedBlock(b)
		// header expressions of a loop are re-evaluated on every iteration
		if len(hdr) > 0 && b != nil {
			b.List = append(in.accessStmts(b.Pos(), hdr), b.List...)
		}
	}
	switch y := s.(type) {
	case *ast.BlockStmt:
		in.schedBlock(y)
	case *ast.IfStmt:
		in.schedBlock(y.Body)
		if y.Else != nil {
			switch e := y.Else.(type) {
			case *ast.BlockStmt:
				in.schedBlock(e)
			case *ast.IfStmt:
				// else-if: its header is evaluated only when reached; wrap into a block
				gl := in.headerGlobals(e)
				in.schedNested(e, gl)
				if len(gl) > 0 {
					y.Else = &ast.BlockStmt{List: append(in.accessStmts(e.Pos(), gl), e)}
				}
			}
		}
	case *ast.ForStmt:
		loopBody(y.Body)
	case *ast.RangeStmt:
		loopBody(y.Body)
	case *ast.SwitchStmt:
		for _, cc := range y.Body.List {
			c := cc.(*ast.CaseClause)
			c.Body = in.schedList(c.Body)
		}
	case *ast.TypeSwitchStmt:
		for _, cc := range y.Body.List {
			c := cc.(*ast.CaseClause)
			c.Body = in.schedList(c.Body)
		}
	case *ast.SelectStmt:
		for _, cc := range y.Body.List {
			c := cc.(*ast.CommClause)
			c.Body = in.schedList(c.Body)
		}
	case *ast.LabeledStmt:
		in.schedNested(y.Stmt, hdr)
	}
	// function literals inside the statement header / simple statements
	ast.Inspect(s, func(x ast.Node) bool {
		switch y := x.(type) {
		case *ast.BlockStmt:
			return x == s // nested lists were handled above
		case *ast.FuncLit:
			in.schedBlock(y.Body)
			return false
		}
		return true
	})
}

// ---------------------------------------------------------------------------------------------
// trace mode

var vartimePrims = map[string]string{
	"bytes.Equal": "BytesEqual", "bytes.Compare": "BytesCompare", "bytes.HasPrefix": "BytesHasPrefix", "bytes.HasSuffix": "BytesHasSuffix",
	"bytes.Index": "BytesIndex", "bytes.IndexByte": "BytesIndexByte", "bytes.Contains": "BytesContains", "bytes.EqualFold": "BytesEqual",
}

func (in *instrumenter) wrapCond(e ast.Expr, what string) ast.Expr {
	if e == nil {
		return nil
	}
	tv, ok := in.info.Types[e]
	if ok && tv.Value != nil {
		return e
	}
	// named boolean types would not convert implicitly; none expected, but keep the program valid
	if ok {
		if _, named := tv.Type.(*types.Named); named {
			in.uninstr = append(in.uninstr, in.fset.Position(e.Pos()).String()+" condition of named bool type")
			return e
		}
	}
	in.changed = true
	return in.rtCall("B", intLit(in.site(e.Pos(), what)), e)
}

func (in *instrumenter) isIntegerNonConst(e ast.Expr) bool {
	tv, ok := in.info.Types[e]
	if !ok || tv.Value != nil {
		return false
	}
	b, ok := tv.Type.Underlying().(*types.Basic)
	return ok && b.Info()&types.IsInteger != 0
}

func (in *instrumenter) wrapIndex(e ast.Expr, what string) ast.Expr {
	if e == nil || !in.isIntegerNonConst(e) {
		return e
	}
	in.changed = true
	conv := &ast.CallExpr{Fun: ast.NewIdent("int"), Args: []ast.Expr{e}}
	return in.rtCall("I", intLit(in.site(e.Pos(), what)), conv)
}

// traceNode rewrites, in place, everything below n.
func (in *instrumenter) traceNode(n ast.Node) {
	ast.Inspect(n, func(x ast.Node) bool {
		switch y := x.(type) {
		case *ast.GenDecl:
			if y.Tok == token.CONST || y.Tok == token.TYPE {
				return false
			}
		case *ast.IfStmt:
			y.Cond = in.wrapTop(y.Cond, "if")
		case *ast.ForStmt:
			if y.Cond != nil {
				y.Cond = in.wrapTop(y.Cond, "for")
			} else if y.Body != nil {
				in.changed = true
				y.Body.List = append([]ast.Stmt{&ast.ExprStmt{X: in.rtCall("T", intLit(in.site(y.Pos(), "loop-iteration")))}}, y.Body.List...)
			}
		case *ast.RangeStmt:
			// one event per iteration: the trip count of a range loop is part of the trace
			if y.Body != nil {
				in.changed = true
				y.Body.List = append([]ast.Stmt{&ast.ExprStmt{X: in.rtCall("T", intLit(in.site(y.Pos(), "range-iteration")))}}, y.Body.List...)
			}
		case *ast.SwitchStmt:
			if y.Tag == nil {
				for _, cc := range y.Body.List {
					c := cc.(*ast.CaseClause)
					for i, e := range c.List {
						c.List[i] = in.wrapTop(e, "case")
					}
				}
			} else if in.isIntegerNonConst(y.Tag) {
				// integer-typed tag: log its value through an identity wrapper of the same type
				in.changed = true
				tv := in.info.Types[y.Tag]
				tname := types.TypeString(tv.Type, func(p *types.Package) string {
					if p == in.pkg {
						return ""
					}
					return p.Name()
				})
				conv := &ast.CallExpr{Fun: ast.NewIdent("int64"), Args: []ast.Expr{y.Tag}}
				logged := in.rtCall("V", intLit(in.site(y.Tag.Pos(), "switch")), conv)
				texpr, err := parser.ParseExpr(tname)
				if err == nil {
					y.Tag = &ast.CallExpr{Fun: &ast.ParenExpr{X: texpr}, Args: []ast.Expr{logged}}
				}
			} else {
				in.uninstr = append(in.uninstr, in.fset.Position(y.Pos()).String()+" switch tag not logged")
			}
		case *ast.BinaryExpr:
			if y.Op == token.LAND || y.Op == token.LOR {
				// the right operand is evaluated conditionally: the left operand is a branch
				if tv, ok := in.info.Types[y]; !ok || tv.Value == nil {
					y.X = in.wrapLeaf(y.X, "&&/|| operand")
				}
			}
			if y.Op == token.EQL || y.Op == token.NEQ {
				if tv, ok := in.info.Types[y.X]; ok && tv.Value == nil {
					switch u := tv.Type.Underlying().(type) {
					case *types.Array:
						in.uninstr = append(in.uninstr, in.fset.Position(y.Pos()).String()+" array comparison (compiler-generated memequal)")
					case *types.Basic:
						if u.Info()&types.IsString != 0 {
							in.uninstr = append(in.uninstr, in.fset.Position(y.Pos()).String()+" string comparison")
						}
					}
				}
			}
		case *ast.IndexExpr:
			if tv, ok := in.info.Types[y.X]; ok {
				switch tv.Type.Underlying().(type) {
				case *types.Map:
				default:
					y.Index = in.wrapIndex(y.Index, "index")
				}
			}
		case *ast.SliceExpr:
			y.Low = in.wrapIndex(y.Low, "slice-low")
			y.High = in.wrapIndex(y.High, "slice-high")
			y.Max = in.wrapIndex(y.Max, "slice-max")
		case *ast.CallExpr:
			if sel, ok := y.Fun.(*ast.SelectorExpr); ok {
				// math/big arithmetic is variable time in the magnitude of its operands: log the bit
				// lengths of the receiver and of every *big.Int argument
				if tv, ok := in.info.Types[sel.X]; ok && isBigInt(tv.Type) {
					in.changed = true
					sel.X = in.rtCall("BI", intLit(in.site(y.Pos(), "vartime math/big."+sel.Sel.Name)), sel.X)
					for i, a := range y.Args {
						if at, ok := in.info.Types[a]; ok && isBigIntPtr(at.Type) {
							y.Args[i] = in.rtCall("BI", intLit(in.site(a.Pos(), "vartime math/big operand")), a)
						}
					}
				}
				if id, ok := sel.X.(*ast.Ident); ok {
					if pn, ok := in.info.Uses[id].(*types.PkgName); ok {
						key := pn.Imported().Path() + "." + sel.Sel.Name
						if w, ok := vartimePrims[key]; ok {
							in.changed = true
							in.keep[id.Name+"."+sel.Sel.Name] = true
							sid := in.site(y.Pos(), "vartime "+key)
							y.Fun = &ast.SelectorExpr{X: ast.NewIdent(in.rtName), Sel: ast.NewIdent(w)}
							y.Args = append([]ast.Expr{intLit(sid)}, y.Args...)
						}
					}
				}
			}
		}
		return true
	})
}

// wrapTop wraps a whole condition (its && / || operands are wrapped when visited).
func (in *instrumenter) wrapTop(e ast.Expr, what string) ast.Expr {
	return in.wrapCond(e, what)
}

// wrapLeaf wraps the left operand of a short-circuit operator unless it is itself one.
func (in *instrumenter) wrapLeaf(e ast.Expr, what string) ast.Expr {
	if b, ok := e.(*ast.BinaryExpr); ok && (b.Op == token.LAND || b.Op == token.LOR) {
		return e
	}
	if p, ok := e.(*ast.ParenExpr); ok {
		if b, ok := p.X.(*ast.BinaryExpr); ok && (b.Op == token.LAND || b.Op == token.LOR) {
			return e
		}
	}
	return in.wrapCond(e, what)
}

// ---------------------------------------------------------------------------------------------
// globals registration

func hasPointers(t types.Type) bool {
	switch u := t.Underlying().(type) {
	case *types.Basic:
		return u.Kind() == types.String || u.Kind() == types.UnsafePointer
	case *types.Array:
		return hasPointers(u.Elem())
	case *types.Struct:
		for i := 0; i < u.NumFields(); i++ {
			if hasPointers(u.Field(i).Type()) {
				return true
			}
		}
		return false
	default:
		return true
	}
}

func (in *instrumenter) globalsFile(files []*ast.File) []byte {
	var b bytes.Buffer
	fmt.Fprintf(&b, "// Code generated by vcheck; DO NOT EDIT.\n\npackage %s\n\nimport (\n\t\"unsafe\"\n\n\tzzverifrt %q\n)\n\nvar _ = unsafe.Sizeof(0)\nvar _ = zzverifrt.RegisterSite\n\nfunc init() {\n", in.pkg.Name(), rtImport)
	scope := in.pkg.Scope()
	names := scope.Names()
	sort.Strings(names)
	for _, n := range names {
		v, ok := scope.Lookup(n).(*types.Var)
		if !ok || n == "_" {
			continue
		}
		q := in.pkg.Name() + "." + n
		if hasPointers(v.Type()) {
			fmt.Fprintf(&b, "\tzzverifrt.RegisterGlobalRef(%q, &%s)\n", q, n)
		} else {
			fmt.Fprintf(&b, "\tzzverifrt.RegisterGlobalRaw(%q, unsafe.Pointer(&%s), unsafe.Sizeof(%s))\n", q, n, n)
		}
	}
	for _, u := range syncUses(in.fset, files) {
		fmt.Fprintf(&b, "\tzzverifrt.NoteSyncUse(%q)\n", u)
	}
	for i, s := range in.sites {
		fmt.Fprintf(&b, "\tzzverifrt.RegisterSite(%d, %q)\n", in.siteBase+i, s)
	}
	fmt.Fprintf(&b, "}\n")
	return b.Bytes()
}

// syncUses lists the places where the library itself uses synchronisation or concurrency
// primitives (imports of sync / sync/atomic, channel types, go and select statements).
func syncUses(fset *token.FileSet, files []*ast.File) []string {
	var out []string
	for _, f := range files {
		for _, im := range f.Imports {
			p, _ := strconv.Unquote(im.Path.Value)
			if p == "sync" || p == "sync/atomic" {
				out = append(out, fset.Position(im.Pos()).String()+" imports "+p)
			}
		}
		ast.Inspect(f, func(x ast.Node) bool {
			switch x.(type) {
			case *ast.ChanType:
				out = append(out, fset.Position(x.Pos()).String()+" channel type")
			case *ast.GoStmt:
				out = append(out, fset.Position(x.Pos()).String()+" go statement")
			case *ast.SelectStmt:
				out = append(out, fset.Position(x.Pos()).String()+" select statement")
			}
			return true
		})
	}
	return out
}

func isBigIntPtr(t types.Type) bool {
	p, ok := t.(*types.Pointer)
	if !ok {
		return false
	}
	n, ok := p.Elem().(*types.Named)
	return ok && n.Obj().Pkg() != nil && n.Obj().Pkg().Path() == "math/big" && n.Obj().Name() == "Int"
}

func isBigInt(t types.Type) bool { return isBigIntPtr(t) }
