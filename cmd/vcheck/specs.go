package main

func specs() []*Spec {
	return []*Spec{
		{
			ID: "C04",
			Units: []Unit{
				{Pkg: "", Job: "C04", Quick: []string{"default", "force32bit"}, Thorough: []string{"default", "force32bit"}},
			},
			Rule: "E1 product enumeration: (a) scMinimal on the word-class alphabet 7^4 x 257 top bytes vs big.Int comparison with L; (b) small-order key x S boundary alphabet x R=[S]B+T_j x variant x 4 verifier modes, constructed so the group equation holds; (c) honest signatures and S+kL for every k; (d) single-bit and boundary perturbations of S of accepted triples. distinct = distinct (sub-space, input bytes); non-trivial = S >= 2^252 or expected-accept.",
			Assume: []string{"SHA-512 of the Go toolchain", "reference model ref.Verify (self-tested against RFC 8032 vectors and crypto/ed25519)"},
		},
	}
}
