package main

func specs() []*Spec {
	out := specsBase()
	for _, sp := range out {
		if a, ok := ruleAddenda[sp.ID]; ok {
			sp.Rule += " Added after the seeded-change rounds: " + a
		}
	}
	return out
}

func specsBase() []*Spec {
	trusted := []string{"SHA-512 and math/big of the Go toolchain", "reference model /verif/ref (self-tested against RFC 8032 / RFC 7748 vectors, crypto/ed25519 and crypto/ecdh at setup)"}
	return []*Spec{
		{
			ID:     "C01",
			Units:  []Unit{{Pkg: "", Job: "C01", Quick: []string{"default", "386"}, Thorough: []string{"default", "386"}}},
			Rule:   "E1 deviation-bounded product enumeration over 12 dimensions (variant, key scalar, key torsion T_0..7, key encoding, nonce scalar, R torsion, R encoding, message, 13 S-perturbations, 7 signature lengths, key replacement and R replacement by 14 torsion encodings / 38 y>=p strings / undecodable strings); triples satisfy the group equation by construction (S = r + h a with known discrete logs). Quick: all vectors with <= 3 non-default coordinates, thorough <= 5; plus the full 8x8 torsion grid per variant and every single-bit flip of key, signature and message of accepted triples. Oracle: ref.Verify on the same bytes. distinct = distinct vector; non-trivial = model verdict accept, or reject for a reason other than length.",
			Assume: append(trusted, "default-mode acceptance with S >= 2^252 is unreachable without a hash pre-image: decided by C04"),
		},
		{
			ID:     "C05",
			Units:  []Unit{{Pkg: "", Job: "C05", Quick: def, Thorough: def}},
			Rule:   "Same 12-dimensional deviation-bounded enumeration as C01 evaluated with ZIP215Verify=true (model without small-order exclusions), batch shapes for level <= 1, plus the full product 14 torsion keys x 14 torsion R x 6 S values x variants (raw: accept iff S = 0) and 14 keys x 8 R torsion x 6 S x every encoding of [S]B+T_j (all accepted), and the two relations default=>zip215 and differ-only-on-small-order on every triple.",
			Assume: trusted,
		},
		{
			ID:     "C02",
			Units:  []Unit{{Pkg: "", Job: "C02", Quick: []string{"default", "386", "force32bit", "noasm+appengine"}, Thorough: allCfg}},
			Rule:   "E1 enumeration: seeds LE32(0..n-1) + 0xff..ff (quick n=256, thorough n=4096 = the complete 12-bit seed subspace) x 20 message lengths at SHA-512 block/padding boundaries (pure); 4 (thorough 8) seeds x lengths x contexts (ctx lengths {1,2,31,32,94,95,96,254,255}, ph {0,1,254,255}; thorough every length 1..255 / 0..255) x option styles (*Options, crypto.Hash(0), crypto.SHA512, Sign helper) x entropy argument {nil, recording, panicking}. Oracle: ref.Sign/ref.Public == crypto/ed25519 of the toolchain == implementation, byte for byte; three calls identical; reader never called; inputs unmodified. non-trivial: all (every case compares 64-byte signatures).",
			Assume: trusted,
		},
		{
			ID:     "C03",
			Units:  []Unit{{Pkg: "", Job: "C03", Quick: []string{"default", "noasm", "force32bit", "386"}, Thorough: allCfg}},
			Rule:   "E1 enumeration: seeds (quick 16, thorough 256) x 4 messages x 6 variant/context pairs x {single default, single ZIP-215}; batches of n distinct own signatures for n in {1,2,3,4,5,7,8,63,64,65,67,68,69,127,128,129,131,200} x 6 variants x 2 modes x {zero entropy, DRBG} x 2 rotations; one signature alone at every position of size-5 and size-65 batches; on 3 (thorough 7) build configurations. Oracle: everything accepted, len(valid)==n, S<L, R and A decodable and not small order (model).",
			Assume: trusted,
		},
		{
			ID:     "C07",
			Units:  []Unit{{Pkg: "", Job: "C07", Quick: []string{"default", "386"}, Thorough: []string{"default", "386", "force32bit"}}},
			Rule:   "E1 enumeration: all 144 ordered (sign-under, verify-under) pairs of 12 variant/context pairs (pure; ctx a, b, a\\x00, aa, 254xa, 255xa, 255xa with last bit flipped; ph '', a, b, 255xa) x 2 keys x 2 64-byte messages x {single, batch of 4, batch of 65}: accept iff the pairs are equal. Contract: every context length 0..300 x {Hash 0, SHA-512} x {Sign, VerifyWithOptions, VerifyBatch}; every digest length 0..130 under SHA-512; every crypto.Hash value 0..20. Exhaustive over the stated ranges.",
			Assume: trusted,
		},
		{
			ID:     "C13",
			Units:  []Unit{{Pkg: "", Job: "C13", Quick: def, Thorough: []string{"default", "386"}}, {Pkg: "extra/x25519", Job: "C13x", Quick: def, Thorough: def}},
			Rule:   "E1 shape enumeration under recover: Verify/VerifyWithOptions over key length {nil,0,1,31,32,33,63,64,65} x signature length {nil,0..66,128} x message {nil,0,1,64,65}; VerifyWithOptions over hash selector 0..20 x digest length x context length {0,1,255,256} x key length; Sign/PrivateKey.Sign/NewKeyFromSeed over key length x message length x 5 option kinds; VerifyBatch count triples [0,5]^3; 14 malformed-entry kinds x every position of n in {1..5,64,65} x 3 variants (+ a second malformed entry); 6 aliasing shapes; every slice handed over inside a canary-filled backing array. E2: entropy reader answers per chunk {full, 1-byte reads, EOF, error at byte 0/1/15/16/63} with <= 2 deviations over up to 3 chunks, sizes {3,4,64,70,130,192}. X25519: all (|scalar|,|point|) in [0,40]^2 and nil. Oracle: contract table transcribed from the statement; per-entry batch results from the model.",
			Assume: trusted,
		},
		{
			ID:     "C14",
			Units:  []Unit{{Pkg: "", Job: "C14", Quick: []string{"default", "386"}, Thorough: []string{"default", "386", "force32bit"}}},
			Rule:   "E2 environment answers: GenerateKey over 7 delivery patterns x failure point (none, after k bytes for k=0..33) x failure kind (EOF, custom error, custom error together with data); E1: Equal on 4 keys x every single-bit flip of the 64 private and 32 public bytes, equal copies, 9+7 foreign-typed values, prefixes; accessors on 64 seeds (fresh copies, no aliasing, round trip). Oracle: NewKeyFromSeed(first 32 bytes), crypto/ed25519 of the toolchain, ref.Public.",
			Assume: trusted,
		},
		{
			ID:     "C09",
			Units: []Unit{{Pkg: "", Job: "C09", Quick: []string{"default", "force32bit"}, Thorough: []string{"default", "force32bit", "386"}},
				{Pkg: "internal/ge25519", Job: "C09g", Quick: []string{"default", "force32bit"}, Thorough: layoutCfg}},
			Rule:   "E1 enumeration: small-order predicate on the complete set of 14 torsion encodings, all 38 y>=p strings and undecodable strings; [k]B+T_i for 13 (quick 5) scalars k != 0 mod L x all 8 torsion points as key and as R, end to end in default mode (single, batch positions 0/3 of 4, 63/64 of 65, 64 of 130); each torsion encoding as key / as R in an equation-satisfying triple (default rejects, ZIP-215 accepts); exhaustive scan of y in [0,2^14) (thorough 2^18) x sign bit against the model. Group level (job C09g): IsNeutralVartime, CofactorMultiply and CofactorEqual on 3 representations (normalised by Z in 7 values; limbs left unreduced by one Add; by one Sub) of the 8 torsion points, 40 mixed-order points and the points with tiny x. non-trivial = torsion or undecodable string, or an end-to-end triple.",
			Assume: trusted,
		},
		{
			ID:     "C17",
			Units: []Unit{{Pkg: "", Job: "C17", Quick: []string{"default", "force32bit", "386"}, Thorough: []string{"default", "force32bit", "386"}},
				{Pkg: "", Job: "C17cpu", Quick: def, Thorough: def, Params: "cpus=3"}, {Pkg: "", Job: "C17cpu", Quick: def, Thorough: def, Params: "cpus=6"},
				{Pkg: "", Job: "C17cpu", Quick: def, Thorough: def, Params: "cpus=7"}, {Pkg: "", Job: "C17cpu", Quick: def, Thorough: def, Params: "cpus=12"}},
			Rule:   "E1: the multi-scalar routine called directly on heaps filled as VerifyBatch fills them (count 2n+1; quick n in {4..8,33,63,64}, thorough every n in 4..64) x 20 scalar profiles (hash-like, r=0/1/equal/one-nonzero/first-zero/max, S in top slice, common factors 2,3,4,6,8,2^64,3*2^100 so that the final Bos-Coster scalar is > 1, 56/112/168-bit maxima, 2^127, L-1) x point profiles (honest, same point, P/-P pairs, identity, mixed-order, all torsion) vs sum [s_i]P_i computed by the model through known discrete logs; E2: all sequences of <= 3 chunk sizes from {4,5,63,64} on one reused heap vs a fresh heap; vartime helpers on all pairs of limb-boundary values for every admissible limbSize vs big.Int; end to end with the fallback hook: all-valid batches of sizes 4..200 (quick: 32 sizes around chunk boundaries) x 4 compositions x 3 variants x entropy {zero, 4 DRBG, 0xff, const}: accepted with zero fallbacks (degenerate constant streams reported, not required). non-trivial = collection not all-zero.",
			Assume: append(trusted, "points are supplied through UnpackVartime and read back through Pack (decided by C10)"),
		},
		{
			ID:     "C06",
			Units: []Unit{{Pkg: "", Job: "C06", Quick: def, Thorough: []string{"default", "force32bit", "386"}},
				{Pkg: "", Job: "C06cpu", Quick: def, Thorough: def, Params: "cpus=3"}, {Pkg: "", Job: "C06cpu", Quick: def, Thorough: def, Params: "cpus=5"},
				{Pkg: "", Job: "C06cpu", Quick: def, Thorough: def, Params: "cpus=6"}, {Pkg: "", Job: "C06cpu", Quick: def, Thorough: def, Params: "cpus=12"}},
			Rule:   "E1 (deviation = number of bad entries): batch length n in {0..9,62..69,126..131,192,193,200} x 6 option sets (3 variants x default/ZIP-215); level 0: all-good x 5 entropy streams (2 DRBG, zero, 0xff, counter); level 1: 15 bad kinds (wrong message, R/S/key bit flip, S+L, valid S in [2^252,L), small-order key/R, undecodable key/R, key 31/nil, signature 63/nil, bad pre-hash or nil message) at every position (n<=9) or at interesting positions {0..3,61..67,125..131,n-4..n-1}; level 2: position pairs x kind pairs (n<=8 all pairs; larger n interesting pairs); thorough adds level 3 for n<=8; unsupported hash selector. E2 (chunk sequences): all sequences of <= 3 full chunks over 7 chunk kinds (fast path, S>=L without fallback, fallback by bad signature / malformed key at last slot / small-order R at slot 0 / bad pre-hash, early break by short signature) x remainder 0..3 x remainder kind; last chunk compared with the same chunk as first chunk of a fresh call. Oracle: per entry well-formedness AND ref.Verify == implementation's single verification == batch entry; summary == AND; len(valid)==n; err==nil. Invalid entries only under DRBG entropy.",
			Assume: append(trusted, "when an entry is invalid the statement allows failure with probability < 2^-120 over the entropy stream: DRBG streams (seeded by VERIF_SEED) are used as fixed alphabet members"),
		},
		{
			ID:     "C11",
			Units:  []Unit{{Pkg: "extra/x25519", Job: "C11", Quick: []string{"default", "noasm", "force32bit", "386"}, Thorough: allCfg}},
			Rule:   "E1 enumeration, fast path: nibble-pattern scalar alphabet NIB (every one of 16 digit values at each of 64 radix-16 positions over fills {0,7,8,9,15}; runs of 7/8/9/15 of every length at every start; quick: reduced fills/values/runs), all 8 low-3-bit x 4 top-2-bit patterns on 3 bases, boundary scalars (0,1,L-1,L,L+1,8L,2^254,2^255-8,2^255-1,2^255,2^256-1,...), 64 clamped secret scalars: X25519(s,Basepoint) == ScalarBaseMult == ScalarMult(s,9) == X25519(s,copy of 9) == RFC 7748 ladder of the model (== crypto/ecdh where it accepts the scalar). Generic path: 7 low-order u values (+p, bit 255 set), u in 2..20, 2^255-20..2^255-1, 2^k, 2^k-1, 16 hash-derived u x 4 scalars: value == model, error and nil output iff the result is all-zero. Chains of 40 iterated calls. Lengths are covered by C13.",
			Assume: trusted,
		},
		{
			ID:     "C12",
			Units:  []Unit{{Pkg: "extra/x25519", Job: "C12", Quick: []string{"default", "force32bit", "386"}, Thorough: []string{"default", "force32bit", "386", "noasm+appengine"}}},
			Rule:   "E1 enumeration: seeds LE32(0..n-1)+0xff..ff (quick 64, thorough 4096): X25519(EdPrivateKeyToX25519(k), Basepoint) == EdPublicKeyToX25519(k.Public()) == model (ladder and Edwards map both), private conversion == clamp(SHA-512(seed)[:32]); public-key strings: every y in [0,2^14) (thorough 2^18) x sign, the 2^9 (2^12) largest 255-bit y (includes all 19 y >= p), 2^k and 2^k+-1, p+-{0,1,2}: result == canonical (1+y)/(1-y), zero for y = 1, failure flag exactly for undecodable strings. non-trivial = decodable string or seed case.",
			Assume: trusted,
		},
		{
			ID:     "C18",
			Units:  []Unit{{Pkg: "internal/curve25519", Job: "C18", Quick: layoutCfg, Thorough: layoutCfg}},
			Rule:   "E1 enumeration on both limb layouts (default 5x51, force32bit 10x25.5, GOARCH=386): class R = full product over all limbs of a per-limb alphabet {0,mask,1,mask-1,(19)} (64-bit: 4 values quick / 5 thorough = 1024 / 3125 elements; 32-bit: 2 values = 1024 elements plus all vectors with <= 2 deviations from 3 base patterns over a 10-value alphabet) plus the representations of 0,1,p-1,p,p+1,2^255-1 and the documented multiplication worst case; Add/Sub/AddReduce/SubReduce/Mul on every ordered pair of R (dense), in-place forms; classes B1a/B1s/B2/N derived by running the real basic / after-basic / negation operations on R extremes (only the operand classes ge25519 feeds); Mul on all 25 class pairs, after-basic forms on their caller classes; Square, Neg, Copy, Contract (canonical value for every representation), Expand (bit 255 ignored) on every element of every class; SquareTimes(1,2,5,10,20,50,100), Recip, PowTwo252m3 (also in place) on subsets; SwapConditional(0/1) on all subset pairs; Expand/Contract on 2^k, 2^k+-1 and the 64 largest 255-bit strings. Oracle: exact residue via math/big plus the limb-bound postcondition of reduced outputs.",
			Assume: []string{"math/big of the Go toolchain"},
		},
		{
			ID:     "C19",
			Units:  []Unit{{Pkg: "internal/modm", Job: "C19", Quick: layoutCfg, Thorough: layoutCfg}},
			Rule:   "E1 enumeration on both limb layouts (+ GOARCH=386): Expand on 64-byte strings k*L+delta for k in {0,1,2,2^j,2^j+-1 (j<=259), floor(2^e/L)+{-2..1} for e in {512,264,256,253,252}} x delta in {0,1,2,L-2,L-1}, 2^j+-1 boundaries, all 3^8 word-class strings; 32-byte strings kL+delta (k<=16), 2^j, 2^j-1, word classes around the words of L; 16-byte strings and other lengths (no reduction below 32 bytes); ExpandRaw on the nibble alphabet; Add and Mul on every ordered pair of the scalar alphabet A_s (0,1,2,L-1,L-2,(L+-1)/2,2^j,2^j-1,limb-class values) with canonical-limb postcondition and the callers' aliasing forms; ContractWindow4 on every nibble-pattern scalar below 2^255 (raw, clamped, reduced): sum d_i 16^i == s, d_i in [-8,8], d_63 in [0,8]; ContractSlidingWindow(5,7) on d*2^i (d odd < 128), runs of ones at offsets 0/1/124/251, periodic patterns, A_s: sum d_i 2^i == s, digits zero or odd within +-(2^(w-1)-1). Oracle: math/big.",
			Assume: []string{"math/big of the Go toolchain"},
		},
		{
			ID: "C10",
			Units: []Unit{{Pkg: "internal/ge25519", Job: "C10", Quick: []string{"default", "force32bit", "386"}, Thorough: []string{"default", "force32bit", "386", "noasm+appengine"}},
				{Pkg: "extra/x25519", Job: "C10x", Quick: []string{"default", "force32bit", "386"}, Thorough: []string{"default", "force32bit", "386"}}},
			Rule:   "E1 enumeration: every y in [0,2^14) (thorough 2^18) x sign bit; the 2^9 (2^12) largest 255-bit y x sign (all 19 y >= p included); 2^k, 2^k+-1 for k < 255 x sign; public keys of 64 seeds. For each string: decodability == Euler criterion of the model, Pack(UnpackVartime(s)) == canonical encoding of the model's point, UnpackNegativeVartime gives the negation, Z = 1 and T = XY, decode-encode-decode is stable; both square-root branches (candidate root / root times sqrt(-1)), x = 0 and y >= p classes must be non-empty. Pack of non-normalised representations: 8 torsion + 26 (thorough 502) points x Z in {1,2,p-1,2^255-20,a0,19}. non-trivial = decodable string or Pack case. The Ed25519-to-X25519 public-key conversion is run on the same string alphabet (job C10x): it must accept exactly the decodable strings and return the canonical (1+y)/(1-y).",
			Assume: append(trusted, "field Contract/Expand as decided by C18"),
		},
		{
			ID:     "C16",
			Units:  []Unit{{Pkg: "internal/ge25519", Job: "C16", Quick: allCfg, Thorough: allCfg}},
			Rule:   "E1 enumeration per backend (assembly / reference selector, unsafe / subtle conditional move, both limb layouts): selector on its complete finite domain 32 rows x 17 digits (-8..8) == niels form of [b*256^row]B (validates all 256 table entries); the 32 sliding-table entries; Basepoint, d, 2d, sqrt(-1); fixed base on the nibble-pattern alphabet NIB (every digit value at every position, carry runs) + specials, through Expand (reduced callers) and ExpandRaw of the clamped value (X25519 caller) == Encode([s]B) of the model; double base on P in {B,-B,A(a0),A(a1),T_1..T_7,B+T_4,A(a0)+T_7,identity} (quick 5) x s1 in W5 (d*2^i, d odd < 32; runs of ones at offsets 0/1/124/251; 0,1,L-1,L-2) x s2 in {0,1,a0}, and P in {B,A(a0)} x s1 in {0,1,a0} x s2 in W7 (d odd < 128), points supplied through UnpackVartime / UnpackNegativeVartime alternately == [s1]P+[s2]B computed by the model through known discrete logs.",
			Assume: append(trusted, "field Contract as decided by C18; scalar Expand as decided by C19"),
		},
		{
			ID: "C08",
			Units: []Unit{
				{Pkg: "", Job: "C08", Quick: allCfg, Thorough: allCfg},
				{Pkg: "extra/x25519", Job: "C08x", Quick: allCfg, Thorough: allCfg},
				{Pkg: "internal/modm", Job: "C08m", Quick: allCfg, Thorough: allCfg},
				{Pkg: "internal/ge25519", Job: "C08g", Quick: allCfg, Thorough: allCfg},
			},
			Post:   postC08,
			Rule:   "E1 x configurations: one deterministic generator (the C01/C05 triple space at deviation level <= 2 evaluated in both modes, small-order keys x the S boundary alphabet, key generation and signing over seeds x SHA-512 boundary lengths x variants/contexts, batches of 15 sizes x 16 entry kinds x option sets; X25519 on the nibble-pattern scalar alphabet and 64 points, both key conversions on 2^11 (thorough 2^14) strings/seeds) is compiled into each of the 7 build configurations {default, noasm, force32bit, appengine, noasm+appengine, force32bit+appengine, GOARCH=386}; every case's outputs (keys, signatures, verdict vectors, X25519 outputs, error/panic classes) are digested and the transcripts compared case by case with the default configuration. Because API inputs cannot be steered to the rare carry / borrow paths of the arithmetic layers (they are hash outputs), two layer-level generators are compared across configurations as well, restricted to operations whose inputs the API supplies directly or from SHA-512 outputs and whose inputs and outputs are layout-independent byte strings / digit vectors: scalar reduction of 64- and 32-byte strings (k*L+delta for every quotient size, word classes), Add/Mul on the boundary alphabet, the three recodings on the nibble alphabet; point decoding + re-encoding on a 12-bit (thorough 15-bit) y scan at both ends of the range, fixed-base multiplication on the nibble alphabet, double-base multiplication on 5 points x 300 scalar pairs. The default configuration's outputs are checked against the model by C01-C07, C10-C12, C16, C19.",
			Assume: []string{"arm64/ppc64le/s390x/mips builds of the same two limb layouts are not executed; the unalignedOk=false path of the unsafe conditional move is not reachable on amd64/386"},
		},
		{
			ID: "C15",
			Units: []Unit{
				{Pkg: "extra/x25519", Job: "C15hist", Instr: "globals", Quick: def, Thorough: def},
				{Pkg: "extra/x25519", Job: "C15sched", Instr: "sched", Quick: []string{"default", "noasm"}, Thorough: []string{"default", "noasm", "force32bit", "appengine"}},
				{Pkg: "extra/x25519", Job: "C15race", Race: true, Quick: []string{"default", "noasm"}, Thorough: []string{"default", "noasm", "force32bit", "appengine"}},
			},
			Rule:   "E2 histories: every sequence of <= 2 (thorough 3) calls over a 29-operation alphabet (plus auxiliary operations: 8 keys, 12 refused verifications, 9 buffer-reuse and 2 options-reuse families) (Sign pure/ctx/ph, Verify good/bad, ZIP-215 small-order, VerifyBatch of 4 good / 4 with one bad / 5 / 65 / 3, GenerateKey, NewKeyFromSeed, X25519 base / generic / low-order, both key conversions, Equal), each history in a FRESH process: every call's result == its result alone in a fresh process; content hash of every package-level variable of the five packages (registered by generated code) unchanged after every call. E3 schedules: 190 two-thread scenarios (every unordered pair of operations), 12 (thorough 24) three-thread scenarios, 12 scenarios of 2 threads x 2 calls, on a build whose every statement touching a package-level variable is preceded by a scheduler hook: discovery run with per-access content hashing finds written variables; a variable written by one call and accessed by a concurrent call is a data race (the library has no synchronisation); preemption-bounded DFS (bound 2, thorough 3) over call boundaries and accesses to written variables, each schedule in a fresh process, oracle = solo results and unchanged global state; with no written variable all access events commute and the executed call orders represent every interleaving. Auxiliary: the same scenarios free-running under the Go race detector. distinct = history / scenario.",
			Assume: []string{"interleavings are explored at accesses to package-level variables (found by type-checking the current sources) and call boundaries; shared memory reached only through pointers smuggled into globals is seen by the content-hash invariant and the free-running race pass", "sequential consistency; the Go memory model's weaker orderings are not modelled"},
		},
		{
			ID:     "C20",
			Units:  []Unit{{Pkg: "extra/x25519", Job: "C20", Instr: "trace", Quick: []string{"default", "noasm", "force32bit", "appengine", "noasm+appengine", "force32bit+appengine", "386"}, Thorough: allCfg}},
			Rule:   "E4 (2-safety by self-composition on traces): the five packages are rebuilt with every branch condition, short-circuit operand, switch tag, loop iteration, non-constant index / slice bound and variable-time primitive (bytes.Equal/Compare/...: leak model = lengths and common-prefix length) wrapped in logging identity functions (type-checked source instrumentation of the current tree). For each of 11 scenarios (NewKeyFromSeed, GenerateKey, Sign pure/ctx/ph, ScalarBaseMult, X25519(s, Basepoint), EdPrivateKeyToX25519, PrivateKey.Equal with the secret as receiver / as argument, Public/Seed) the public shape is fixed and the secret ranges over an alphabet (1056 seeds: LE32(0..1023) incl. 0xff..ff, 32 hash-derived; thorough 8224; the nibble-pattern scalar alphabet for X25519: every digit value at every position; key pairs agreeing with the other key in the first j bytes, j in {0,1,2,16,31,32,33,62,63,64}); all executions of a scenario must produce one identical event trace; on a mismatch both runs are repeated with full logs and the first diverging site is reported. The assembly selector is checked by a straight-line scanner (allow-listed opcodes, no J*/CALL/LOOP, memory operands only const(R14), const(R15), name+const(FP), base registers never rewritten).",
			Assume: []string{"control flow, indices and declared variable-time primitives of the library's own Go code; not micro-architectural timing, compiler code generation, or the standard library's internals (crypto/sha512, crypto/subtle, encoding/binary, math/bits are the trusted constant-time base)", "since fix F5 the generic X25519 ladder is library code: it is traced as an advisory scenario (not among the operations the property lists; a divergence is recorded in the evidence, not raised)"},
		},
		// NEXT-SPEC
		{
			ID: "C04",
			Units: []Unit{
				{Pkg: "", Job: "C04", Quick: []string{"default", "force32bit", "386"}, Thorough: []string{"default", "force32bit", "386", "noasm", "appengine"}},
			},
			Rule:   "E1 product enumeration: (a) scMinimal on the word-class alphabet 7^4 x 257 top bytes vs big.Int comparison with L; (b) small-order key x S boundary alphabet x R=[S]B+T_j x variant x 4 verifier modes, constructed so the group equation holds; (c) honest signatures and S+kL for every k; (d) single-bit and boundary perturbations of S of accepted triples. distinct = distinct (sub-space, input bytes); non-trivial = S >= 2^252 or expected-accept.",
			Assume: []string{"SHA-512 of the Go toolchain", "reference model ref.Verify (self-tested against RFC 8032 vectors and crypto/ed25519)"},
		},
	}
}

// ruleAddenda: what the enumerations gained after the rounds of independently written changes
// (DESIGN 12.1); appended to the rule text of the evidence.
var ruleAddenda = map[string]string{
	"C02": "Sign == RFC 8032 for EVERY message length 0..8320 (and windows at 16384/32768/65536) under pure, a 1-byte and a 255-byte context; 17 argument coincidences (message = key, seed, signature, dom2 label, context, ...). Very long messages as C01; held results (70 signatures and keys kept, each used as the caller's buffer). Context x message plane (1..255 x 0..320; thorough 0..1100); caller buffers refilled between signing calls.",
	"C04": "The accepted twin (S mod L) as the neighbour of every S >= L entry, with and without a failing equation elsewhere in the chunk. Compensating pairs (S_i + d, S_j - d) at every pair of positions of batches of 4..9 and the chunk-edge pairs of 64..133. (c') S + kL under 16 KiB .. 70000-byte messages.",
	"C12": "Keys constructed from chosen conversion results (one non-zero byte, k / p-k, 2^k+-1, all ones with one hole). Held conversion results.",
	"C01": "variant dimension of 6 (incl. 255-byte contexts and ph under the ctx variant's context); dimension Rrel (signature carries (-x,y) / (x,-y) of the point the equation yields); honest inputs signed by the model. Dense message lengths: every length 0..8320 and windows at 16384/32768/65536 x {pure, 1-byte ctx, 255-byte ctx} x {honest, +1, +32, -1, first/last byte} single and in a batch of 5 with one-byte neighbours. Very long messages: multiples of 2^18 up to 8 MiB (thorough 24 MiB), inner bytes changed around MiB boundaries. Crossed histories: K1 honest, then K1 xor mask (every bit, every value of bytes 0 and 31) signed with K1's scalar over the new bytes. Context x message plane for verification (1..255 x 0..320 under ctx; 0..255 under ph), default configuration.",
	"C03": "S = (r + h a) mod L evaluated as sign() does on all triples of a scalar boundary alphabet, per configuration; later-chunk positions. Calls in flight: k = 1..6, 8 batches of own signatures parked in their entropy readers while others run. Variant sequences sharing a context.",
	"C05": "the heterogeneous batch shapes also in default mode (neighbours stay accepted, the entry gets the default verdict). Dense message lengths (every 4th) as C01. Context x message plane for verification (1..255 x 0..320 under ctx; 0..255 under ph), default configuration.",
	"C06": "arguments handed over as consecutive slices of one buffer (two calls out of three) with a changed-byte check, result vector overwritten after each call; level 1e: entropy sources answering with 1/16/17/100/1000 bytes per call x bad positions in every chunk; homogeneous chunks; runs of one bad entry; cross-variant and model-signed wrong-length-digest entries. Level big (255..1025 entries, thorough 65537; bad entries where 8/16-bit indices wrap); level dense-len (every prefix length P: signature over P bytes with a P+1 / P+32 byte message among one-byte neighbours); level near-dup (a bad entry as the spoilt copy of its honest neighbour, 5 forms, with/without forced fallback). Level crossed (16 mixed-up readings of neighbouring entries); level compensating (pairs and triples whose errors cancel under equal randomisers); level env (every GOMAXPROCS 1..64, 96, 128, 256; k = 0..6, 8 calls in flight). Levels long-msg, huge (2^22 + 68 entries); calls in flight up to 257; cpus units (taskset 3, 5, 6, 12). Level two-defects (signature kind x key kind on one entry).",
	"C07": "digest-length sweep in batches of 70 and 140 at the first/last positions of every batched chunk; hash selectors 0..24, 64, 200, 2^31; homogeneous batches. Refusal x content: 8 refused option sets x 11 signature/key contents x 3 APIs. Re-entrant reader: inner verification and signature under another context with a fresh Options value or a struct copy of the used template. Many-contexts (17000 / 70000 distinct contexts between two uses of one).",
	"C09": "runs of one small-order entry across a chunk boundary; small-order entry before/after a malformed entry (key31, sig63, msg63) in the first and a later chunk. Buffer-reuse section (14 torsion encodings written into the buffer an honest key / R was verified from). Fold look-alikes of every torsion encoding in an earlier chunk. An invalid entry at position j with small-order R / key at j+64 and j+128.",
	"C10": "constructed y whose square-root check value has one non-zero byte at each position, or the same byte at positions i and i+4k; points with tiny x. Check values whose words add up to a power of two.",
	"C11": "constructed (scalar, point) pairs for chosen results: one non-zero byte per position, two equal bytes at (i,j), u = k and p-k (k < 64), u around every limb boundary of both layouts; the one-bit / byte-0 / byte-31 value neighbourhood of the base point; re-slices of Basepoint; carry-run scalars (runs of 7/8/15/0 of limb-like length with the digit below sending or not sending a carry); input arrays intact; results fresh. First-step family: a limb of E = AA - BB of the first ladder step at a wrap point of a24. The harness appends to the exported Basepoint slice before anything else; held X25519 results. Length-truncation (2^k + 32 bytes); scalar / point buffers refilled between calls.",
	"C13": "canaries with spare capacity, content-intact comparison per content class, aliasing, malformed kinds key64/key0/msg-huge, hash selectors 0..40, 63..65, 200, 2^16, 2^31, 2^32-1 through Sign and VerifyBatch. Identical malformed neighbours and uniformly malformed batches. Every GOMAXPROCS 1..64, 96, 128, 256 x malformed entries in full chunks. Two-defect entries (every ordered pair of malformed kinds on one entry); (false, nil, err) on mismatched counts.",
	"C14": "spare-capacity independence of every returned slice; transient-error readers; every pair of byte positions x {same mask at both, +1/-1} for Equal on public and private keys. crypto/rand.Reader replaced by a recorded stream: 3000 (thorough 70000) GenerateKey(nil) calls. Hand-off reader (buffer filled by another goroutine after the caller's stack moved); held results. Typed-nil reader; returned keys overwritten in place, then derived again.",
	"C15": "results overwritten to their capacity after every call; refused-then-sentinel histories (12 refusals x 8 sentinels); shared-Options operations; buffer-reuse histories (11 families x 3 content variants written into the same caller buffers, sequences of 2, thorough 3); fill-perturb-recheck histories (1..8 keys, 10 perturbing calls); depth-4 (thorough 6) histories over 6 operations; goroutines started by the library are recognised and never scheduled. Long runs (each operation 1030 times; thorough 66000); 10 refused operations x 6 operations under way as concurrent scenarios. Calls in flight (child mode parked); sandwich histories A, d-1 fillers, B (d around 256; thorough around 65536; GC on and off). Streak histories (2..33 failing calls, then each sentinel); calls in flight up to 257. The four small-order-R operations (single / batch x ZIP-215 / default) in every ordered pair and triple.",
	"C16": "dirty-output pass (result must not depend on the output variable's prior content); carry-run scalars on the fixed-base path; all 7 configurations in the quick tier. Dense recodings (periodic bit patterns of period <= 8/11, +-1; every signed odd digit at spacing w and w+1). Stack-position sweep of the fixed-base multiplication (every 8-byte depth up to 72 KB); 8 configurations. P also in the projective form (3X : 3Y : 3Z : 3T).",
	"C17": "every multi-scalar case also into an output point holding [4+n]B; reuse sequences share heap and output point and put r=0 / r=1 chunks after a general chunk; end to end: fallback offsets of mixed batches == the chunks holding a bad entry. All-valid batches over every message length 0..8327 x 3 variants: no fallback. Parallel section: 5 histories of refused calls, then two all-valid batches of 1536 at the same time: no fallback. cpus units (taskset 3, 6, 7, 12). Common factors 2^30, 2^56, 2^60, 2^90, 2^112, 2^120 (final scalar with its leading bit at the lowest bit of a limb).",
	"C18": "dirty-output pass; reducing and after-basic forms on one-level unreduced operands on either side. Small-constant multipliers x limbs at the constants' wrap points floor(m*2^w/k).",
	"C19": "dirty-output pass. Constructed remainders: q*L + r and a*(r/a) for r = rho mod L, rho over limb-class values of both layouts in [0, 3L).",
	"C08": "layer-level transcripts for modm and ge25519; X25519 constructed results (u = k, p-k, powers of 256) and carry-run scalars. Constructed-remainder transcript class (expand-remainder). Base-point product at every stack depth (transcript class x25519-base-stack); 8th configuration 386+force64bit.",
	"C20": "advisory trace of the generic X25519 ladder (library code since fix F5). Signing scenarios over 22 message lengths (0..2^20) and 3 context lengths. Equal on 32, 40, 63, 65, 96, 128-byte keys.",
}
