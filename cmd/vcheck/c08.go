package main

import (
	"fmt"
	"io/ioutil"
	"sort"
	"strings"
)

// postC08 compares the transcripts (case index -> output digest) of every configuration of a
// job with the reference configuration "default", case by case.
func postC08(st *runState) {
	type key struct{ pkg, job string }
	trans := map[key]map[string]map[int64]string{} // job -> config -> index -> digest
	for _, ur := range st.runs {
		k := key{ur.Unit.Pkg, ur.Unit.Job}
		if trans[k] == nil {
			trans[k] = map[string]map[int64]string{}
		}
		m := map[int64]string{}
		for shard := range ur.Results {
			p := resultPath(st.work, ur.Unit, ur.Config, shard) + ".transcript"
			b, err := ioutil.ReadFile(p)
			if err != nil {
				continue
			}
			for _, ln := range strings.Split(string(b), "\n") {
				var idx int64
				var h string
				if n, _ := fmt.Sscanf(ln, "%d %s", &idx, &h); n == 2 {
					m[idx] = h
				}
			}
		}
		trans[k][ur.Config] = m
	}
	for k, byCfg := range trans {
		refT, ok := byCfg["default"]
		if !ok || len(refT) == 0 {
			st.infraErr = append(st.infraErr, "C08: no reference transcript for "+k.job)
			continue
		}
		var cfgs []string
		for c := range byCfg {
			if c != "default" {
				cfgs = append(cfgs, c)
			}
		}
		sort.Strings(cfgs)
		for _, cfg := range cfgs {
			t := byCfg[cfg]
			if len(t) != len(refT) {
				st.infraErr = append(st.infraErr, fmt.Sprintf("C08: transcript of %s[%s] has %d cases, reference has %d", k.job, cfg, len(t), len(refT)))
				continue
			}
			var idxs []int64
			for i := range refT {
				idxs = append(idxs, i)
			}
			sort.Slice(idxs, func(a, b int) bool { return idxs[a] < idxs[b] })
			n := 0
			for _, i := range idxs {
				if t[i] != refT[i] {
					n++
					if n > 3 {
						continue
					}
					vkey := fmt.Sprintf("C08 %s config %s differs from default", k.job, cfg)
					u := Unit{Pkg: k.pkg, Job: k.job, Params: "expect=" + refT[i] + ",key=" + vkey}
					st.extraV = append(st.extraV, violation{Unit: u, Config: cfg, Index: i, Key: vkey,
						Msg:    fmt.Sprintf("case %d of %s: outputs under configuration %s (digest %s) differ from configuration default (digest %s)", i, k.job, cfg, t[i], refT[i]),
						Detail: map[string]interface{}{"case": i, "config": cfg, "digest": t[i], "reference_config": "default", "reference_digest": refT[i]}})
				}
			}
		}
	}
}
