// vcheck is the driver of the bounded-exhaustive explorer for oasislabs/ed25519.
//
//	vcheck run <Cxx> [--tier quick|thorough]   build harnesses from /repo's working tree, explore, write evidence
//	vcheck replay <file>                       re-execute one recorded case
//	vcheck list
//
// Exit codes: 0 property held on everything explored (or only known findings); 1 violation;
// 2 infrastructure error (build failure, model self-test failure, nondeterminism) - never a verdict.
package main

import (
	"encoding/binary"
	"encoding/json"
	"flag"
	"fmt"
	"io/ioutil"
	"os"
	"os/exec"
	"path/filepath"
	"sort"
	"strconv"
	"strings"
	"sync"
	"time"
)

var (
	verifDir = envOr("VERIF_DIR", "/verif")
	repoDir  = envOr("VERIF_REPO", "/repo")
	modPath  = "github.com/oasisprotocol/ed25519"
)

func envOr(k, d string) string {
	if v := os.Getenv(k); v != "" {
		return v
	}
	return d
}

// Unit is one (package, job) pair of a property, run under a list of build configurations.
type Unit struct {
	Pkg      string   // "" (root), "extra/x25519", "internal/ge25519", ...
	Job      string   // job name registered by the harness
	Quick    []string // configurations for the quick tier
	Thorough []string // configurations for the thorough tier
	Instr    string   // "", "sched", "trace": instrumented build
	Serial   bool     // run as a single worker (no sharding)
	Race     bool     // build with -race (auxiliary free-running pass)
	Params   string   // passed as VERIF_PARAMS
	Required []string // outcome classes that must be non-empty (vacuity guard), in addition to those the job declares
}

// Spec describes a property's check.
type Spec struct {
	ID        string
	Units     []Unit
	Rule      string
	Assume    []string
	Post      func(*runState) // optional driver-side cross-unit comparison (C08)
	DeadlineQ int             // internal worker deadline, seconds (0 = none)
	DeadlineT int
}

var allCfg = []string{"default", "noasm", "force32bit", "appengine", "noasm+appengine", "force32bit+appengine", "386", "386+force64bit"}
var layoutCfg = []string{"default", "force32bit", "386", "386+force64bit"}
var def = []string{"default"}

type workerResult struct {
	Job          string                   `json:"job"`
	Shard        int                      `json:"shard"`
	Cases        int64                    `json:"cases"`
	Evaluated    int64                    `json:"evaluated"`
	Transitions  int64                    `json:"transitions"`
	Classes      map[string]int64         `json:"classes"`
	Violations   []map[string]interface{} `json:"violations"`
	NViolations  int64                    `json:"nviolations"`
	Samples      []interface{}            `json:"samples"`
	Extra        map[string]int64         `json:"extra"`
	Notes        []string                 `json:"notes"`
	Required     []string                 `json:"required"`
	Exhaustive   bool                     `json:"exhaustive"`
	DeadlineHit  bool                     `json:"deadline_hit"`
	Completed    bool                     `json:"completed"`
	HarnessError string                   `json:"harness_error"`
	Transcript   string                   `json:"transcript"`
}

type unitRun struct {
	Unit    Unit
	Config  string
	Bin     string
	Results []workerResult
	Keys    map[uint64]bool
}

type runState struct {
	spec     *Spec
	tier     string
	seed     int64
	work     string
	runs     []*unitRun
	infraErr []string
	extraV   []violation // violations added by Post
	start    time.Time
	// violations reproduced only together with the preceding cases of their shard: key -> shard count
	historyDep map[string]int
}

type violation struct {
	Unit   Unit
	Config string
	Index  int64
	Key    string
	Msg    string
	Detail map[string]interface{}
}

func main() {
	if len(os.Args) < 2 {
		usage()
	}
	switch os.Args[1] {
	case "run":
		os.Exit(cmdRun(os.Args[2:]))
	case "replay":
		os.Exit(cmdReplay(os.Args[2:]))
	case "list":
		for _, s := range specs() {
			fmt.Println(s.ID)
		}
	case "warm":
		os.Exit(cmdWarm())
	default:
		usage()
	}
}

func usage() {
	fmt.Fprintln(os.Stderr, "usage: vcheck run <Cxx> [--tier quick|thorough] | replay <file> | list | warm")
	os.Exit(2)
}

func findSpec(id string) *Spec {
	for _, s := range specs() {
		if s.ID == id {
			return s
		}
	}
	return nil
}

func goEnv(cfg string) []string {
	env := os.Environ()
	env = append(env, "GOFLAGS=-mod=mod", "GOPROXY=off", "GOSUMDB=off", "GOTOOLCHAIN=local", "CGO_ENABLED=0")
	if strings.HasPrefix(cfg, "386") {
		env = append(env, "GOARCH=386")
	}
	return env
}

func cfgTags(cfg string) string {
	tags := []string{"verif"}
	for _, t := range strings.Split(cfg, "+") {
		if t != "default" && t != "386" {
			tags = append(tags, t)
		}
	}
	return strings.Join(tags, ",")
}

// resultPath names a worker's result file (its transcript, if any, is <path>.transcript).
func resultPath(work string, u Unit, cfg string, shard int) string {
	return filepath.Join(work, fmt.Sprintf("res_%s_%s_%s_%016x_%d.json", pkgKey(u.Pkg), u.Job, cfg, hashStr(u.Params), shard))
}

func pkgKey(pkg string) string {
	if pkg == "" {
		return "root"
	}
	return strings.Replace(pkg, "/", "_", -1)
}

// buildOverlay writes the overlay JSON for a package: harness files as in-package _test.go
// files, the two virtual packages, and (if instr != "") instrumented copies of the sources.
func buildOverlay(work, pkg, cfg, instr string) (string, error) {
	repl := map[string]string{}
	hdir := filepath.Join(verifDir, "harness", pkgKey(pkg))
	files, _ := filepath.Glob(filepath.Join(hdir, "*.go"))
	if len(files) == 0 {
		return "", fmt.Errorf("no harness files in %s", hdir)
	}
	// the package's own test files are masked: the harness must not depend on (or clash with) them
	own, _ := filepath.Glob(filepath.Join(repoDir, pkg, "*_test.go"))
	for _, f := range own {
		repl[f] = ""
	}
	for _, f := range files {
		base := strings.TrimSuffix(filepath.Base(f), ".go")
		dst := filepath.Join(repoDir, pkg, "zz_verif_"+base+"_test.go")
		// build-constrained harness files keep their suffix semantics through their own +build lines
		repl[dst] = f
	}
	repl[filepath.Join(repoDir, "internal", "zzverifref", "ref.go")] = filepath.Join(verifDir, "ref", "ref.go")
	repl[filepath.Join(repoDir, "internal", "zzverifrt", "rt.go")] = filepath.Join(verifDir, "rt", "rt.go")
	rtx, _ := filepath.Glob(filepath.Join(verifDir, "rt", "*.go"))
	for _, f := range rtx {
		if strings.HasSuffix(f, "_test.go") {
			continue
		}
		repl[filepath.Join(repoDir, "internal", "zzverifrt", filepath.Base(f))] = f
	}
	if instr != "" {
		m, err := instrument(work, cfg, instr)
		if err != nil {
			return "", err
		}
		for k, v := range m {
			repl[k] = v
		}
	}
	b, _ := json.MarshalIndent(map[string]interface{}{"Replace": repl}, "", " ")
	p := filepath.Join(work, "overlay_"+pkgKey(pkg)+"_"+cfg+"_"+instr+".json")
	return p, ioutil.WriteFile(p, b, 0644)
}

func buildUnit(work string, u Unit, cfg string) (string, error) {
	ov, err := buildOverlay(work, u.Pkg, cfg, u.Instr)
	if err != nil {
		return "", err
	}
	suffix := ""
	if u.Race {
		suffix = "_race"
	}
	bin := filepath.Join(work, "t_"+pkgKey(u.Pkg)+"_"+cfg+"_"+u.Instr+suffix+".test")
	if _, err := os.Stat(bin); err == nil {
		return bin, nil
	}
	args := []string{"test", "-c", "-vet=off", "-overlay", ov, "-tags", cfgTags(cfg), "-o", bin}
	env := goEnv(cfg)
	if u.Race {
		args = append(args, "-race")
		env = append(env, "CGO_ENABLED=1")
	}
	ip := modPath
	if u.Pkg != "" {
		ip += "/" + u.Pkg
	}
	args = append(args, ip)
	cmd := exec.Command("go", args...)
	cmd.Dir = repoDir
	cmd.Env = env
	out, err := cmd.CombinedOutput()
	if err != nil {
		return "", fmt.Errorf("go %s: %v\n%s", strings.Join(args, " "), err, out)
	}
	return bin, nil
}

func cmdWarm() int {
	// Build every (package, configuration) once so that the go build cache is warm.
	work, _ := ioutil.TempDir(filepath.Join(verifDir, ".work"), "warm")
	defer os.RemoveAll(work)
	seen := map[string]bool{}
	rc := 0
	for _, s := range specs() {
		for _, u := range s.Units {
			for _, cfg := range append(append([]string{}, u.Quick...), u.Thorough...) {
				k := u.Pkg + "|" + cfg + "|" + u.Instr + fmt.Sprint(u.Race)
				if seen[k] {
					continue
				}
				seen[k] = true
				if _, err := buildUnit(work, u, cfg); err != nil {
					fmt.Fprintln(os.Stderr, "warm:", err)
					rc = 2
				}
			}
		}
	}
	return rc
}

func cmdRun(args []string) int {
	fs := flag.NewFlagSet("run", flag.ExitOnError)
	tier := fs.String("tier", envOr("VERIF_TIER", "quick"), "quick|thorough")
	workers := fs.Int("workers", 16, "parallel workers")
	var id string
	if len(args) > 0 && !strings.HasPrefix(args[0], "-") {
		id = args[0]
		args = args[1:]
	}
	fs.Parse(args)
	if id == "" && fs.NArg() > 0 {
		id = fs.Arg(0)
	}
	spec := findSpec(id)
	if spec == nil {
		fmt.Fprintln(os.Stderr, "unknown property", id)
		return 2
	}
	if *tier != "quick" && *tier != "thorough" {
		fmt.Fprintln(os.Stderr, "bad tier")
		return 2
	}
	seed := int64(1)
	if s := os.Getenv("VERIF_SEED"); s != "" {
		if v, err := strconv.ParseInt(s, 10, 64); err == nil {
			seed = v
		}
	}
	os.MkdirAll(filepath.Join(verifDir, ".work"), 0755)
	work, err := ioutil.TempDir(filepath.Join(verifDir, ".work"), spec.ID+"_")
	if err != nil {
		fmt.Fprintln(os.Stderr, err)
		return 2
	}
	if os.Getenv("VERIF_KEEP") == "" {
		defer os.RemoveAll(work)
	}
	st := &runState{spec: spec, tier: *tier, seed: seed, work: work, start: time.Now(), historyDep: map[string]int{}}
	return st.run(*workers)
}

func (st *runState) run(workers int) int {
	spec := st.spec
	// 1. build all (unit, config) binaries, in parallel
	type bj struct {
		u   Unit
		cfg string
	}
	var jobs []bj
	for _, u := range spec.Units {
		cfgs := u.Quick
		if st.tier == "thorough" {
			cfgs = u.Thorough
		}
		for _, c := range cfgs {
			jobs = append(jobs, bj{u, c})
		}
	}
	bins := make([]string, len(jobs))
	errs := make([]error, len(jobs))
	{
		// build distinct binaries once; serialise identical targets
		var mu sync.Mutex
		locks := map[string]*sync.Mutex{}
		var wg sync.WaitGroup
		sem := make(chan bool, 6)
		for i := range jobs {
			wg.Add(1)
			go func(i int) {
				defer wg.Done()
				sem <- true
				defer func() { <-sem }()
				k := jobs[i].u.Pkg + "|" + jobs[i].cfg + "|" + jobs[i].u.Instr + fmt.Sprint(jobs[i].u.Race)
				mu.Lock()
				l := locks[k]
				if l == nil {
					l = &sync.Mutex{}
					locks[k] = l
				}
				mu.Unlock()
				l.Lock()
				defer l.Unlock()
				bins[i], errs[i] = buildUnit(st.work, jobs[i].u, jobs[i].cfg)
			}(i)
		}
		wg.Wait()
	}
	for i, e := range errs {
		if e != nil {
			fmt.Printf("HARNESS-BUILD-FAILED property=%s unit=%s/%s config=%s\n%v\n", spec.ID, jobs[i].u.Pkg, jobs[i].u.Job, jobs[i].cfg, e)
			return 2
		}
	}
	// 2. run workers
	deadline := spec.DeadlineQ
	if st.tier == "thorough" {
		deadline = spec.DeadlineT
	}
	type wj struct {
		run   *unitRun
		shard int
		n     int
	}
	var wjobs []wj
	for i, j := range jobs {
		ur := &unitRun{Unit: j.u, Config: j.cfg, Bin: bins[i], Keys: map[uint64]bool{}}
		st.runs = append(st.runs, ur)
		n := workers
		if j.u.Serial {
			n = 1
		}
		ur.Results = make([]workerResult, n)
		for s := 0; s < n; s++ {
			wjobs = append(wjobs, wj{ur, s, n})
		}
	}
	var mu sync.Mutex
	var wg sync.WaitGroup
	sem := make(chan bool, workers)
	for _, w := range wjobs {
		wg.Add(1)
		go func(w wj) {
			defer wg.Done()
			sem <- true
			defer func() { <-sem }()
			// (units that differ only in their parameters - cpus=3, cpus=6 - run side by side: the parameters are part of the file name)
			out := resultPath(st.work, w.run.Unit, w.run.Config, w.shard)
			res, keys, err := runWorker(w.run.Bin, w.run.Unit, w.run.Config, st.tier, st.seed, w.shard, w.n, -1, deadline, out)
			mu.Lock()
			defer mu.Unlock()
			if err != nil {
				st.infraErr = append(st.infraErr, fmt.Sprintf("%s/%s[%s] shard %d: %v", w.run.Unit.Pkg, w.run.Unit.Job, w.run.Config, w.shard, err))
				return
			}
			w.run.Results[w.shard] = *res
			for _, k := range keys {
				w.run.Keys[k] = true
			}
		}(w)
	}
	wg.Wait()
	if len(st.infraErr) > 0 {
		for _, e := range st.infraErr {
			fmt.Println("HARNESS-ERROR", e)
		}
		return 2
	}
	for _, ur := range st.runs {
		for _, r := range ur.Results {
			if r.HarnessError != "" {
				fmt.Printf("HARNESS-ERROR %s/%s[%s]: %s\n", ur.Unit.Pkg, ur.Unit.Job, ur.Config, r.HarnessError)
				return 2
			}
		}
	}
	if spec.Post != nil {
		spec.Post(st)
	}
	return st.report()
}

func runWorker(bin string, u Unit, cfg, tier string, seed int64, shard, n int, only int64, deadline int, out string) (*workerResult, []uint64, error) {
	os.Remove(out)
	os.Remove(out + ".keys")
	args := []string{bin, "-test.run", "^TestVerif$", "-test.timeout", "0", "-test.count", "1"}
	if i := strings.Index(u.Params, "cpus="); i >= 0 {
		// the number of processors the PROCESS starts with (runtime.NumCPU, fixed at start-up from the
		// affinity mask) is a dimension: run the worker under taskset when that is possible here
		var n int
		fmt.Sscanf(u.Params[i+5:], "%d", &n)
		if ts, err := exec.LookPath("taskset"); err == nil && n > 0 && exec.Command(ts, "-c", fmt.Sprintf("0-%d", n-1), "true").Run() == nil {
			args = append([]string{ts, "-c", fmt.Sprintf("0-%d", n-1)}, args...)
		}
	}
	cmd := exec.Command(args[0], args[1:]...)
	cmd.Dir = filepath.Dir(bin)
	env := append(os.Environ(),
		"VERIF_JOB="+u.Job, "VERIF_TIER="+tier, "VERIF_SEED="+strconv.FormatInt(seed, 10),
		fmt.Sprintf("VERIF_SHARD=%d/%d", shard, n), "VERIF_OUT="+out, "VERIF_CONFIG="+cfg,
		"VERIF_PARAMS="+u.Params, "VERIF_DIR="+verifDir, "VERIF_REPO="+repoDir)
	if only >= 0 {
		env = append(env, "VERIF_ONLY="+strconv.FormatInt(only, 10))
	} else if only < -1 {
		// history replay: the whole shard up to and including case -(only+2)
		env = append(env, "VERIF_UPTO="+strconv.FormatInt(-(only+2), 10))
	}
	if deadline > 0 {
		env = append(env, "VERIF_DEADLINE_S="+strconv.Itoa(deadline))
	}
	if !u.Race {
		env = append(env, "GOMAXPROCS=2")
	}
	cmd.Env = env
	outb, err := cmd.CombinedOutput()
	b, rerr := ioutil.ReadFile(out)
	if rerr != nil {
		tail := string(outb)
		if len(tail) > 4000 {
			tail = tail[len(tail)-4000:]
		}
		return nil, nil, fmt.Errorf("worker produced no result (%v): %s", err, tail)
	}
	var res workerResult
	if jerr := json.Unmarshal(b, &res); jerr != nil {
		return nil, nil, jerr
	}
	if !res.Completed {
		return nil, nil, fmt.Errorf("worker did not complete")
	}
	var keys []uint64
	if kb, err := ioutil.ReadFile(out + ".keys"); err == nil {
		for i := 0; i+8 <= len(kb); i += 8 {
			keys = append(keys, binary.LittleEndian.Uint64(kb[i:]))
		}
	}
	os.Remove(out + ".keys")
	return &res, keys, nil
}

// known findings -----------------------------------------------------------------------------

type finding struct {
	Property string
	Pattern  string
	Text     string
}

func loadFindings() []finding {
	var out []finding
	b, err := ioutil.ReadFile(filepath.Join(verifDir, "known_findings.txt"))
	if err != nil {
		return nil
	}
	for _, ln := range strings.Split(string(b), "\n") {
		ln = strings.TrimSpace(ln)
		if !strings.HasPrefix(ln, "finding:") {
			continue // "fixed:" lines and comments suppress nothing
		}
		rest := strings.TrimSpace(strings.TrimPrefix(ln, "finding:"))
		f := finding{Text: rest}
		for _, tok := range strings.Fields(rest) {
			if strings.HasPrefix(tok, "property=") {
				f.Property = strings.TrimPrefix(tok, "property=")
			}
			if strings.HasPrefix(tok, "key=") {
				f.Pattern = strings.TrimPrefix(tok, "key=")
			}
		}
		if f.Property != "" && f.Pattern != "" {
			out = append(out, f)
		}
	}
	return out
}

func matchFinding(fs []finding, prop, key string) *finding {
	for i := range fs {
		if fs[i].Property == prop && strings.HasPrefix(key, fs[i].Pattern) {
			return &fs[i]
		}
	}
	return nil
}

// report ---------------------------------------------------------------------------------------

func (st *runState) report() int {
	spec := st.spec
	var viols []violation
	classes := map[string]int64{}
	extra := map[string]int64{}
	var evaluated, transitions, cases int64
	allKeys := map[uint64]bool{}
	var samples []interface{}
	var notes []string
	exhaustive := true
	required := map[string]bool{}
	cfgSet := map[string]bool{}
	var unitSummaries []map[string]interface{}
	for _, ur := range st.runs {
		cfgSet[ur.Config] = true
		var uEval, uTrans, uCases int64
		uClasses := map[string]int64{}
		for _, r := range ur.Results {
			uEval += r.Evaluated
			uTrans += r.Transitions
			if r.Cases > uCases {
				uCases = r.Cases
			}
			for k, v := range r.Classes {
				classes[k] += v
				uClasses[k] += v
			}
			for k, v := range r.Extra {
				if strings.HasPrefix(k, "max_") {
					if v > extra[k] {
						extra[k] = v
					}
				} else {
					extra[k] += v
				}
			}
			if !r.Exhaustive {
				exhaustive = false
			}
			for _, q := range r.Required {
				required[q] = true
			}
			for _, n := range r.Notes {
				if len(notes) < 30 && !contains(notes, n) {
					notes = append(notes, n)
				}
			}
			if len(samples) < 6 {
				for _, s := range r.Samples {
					if len(samples) < 6 {
						samples = append(samples, s)
					}
				}
			}
			for _, v := range r.Violations {
				vi := violation{Unit: ur.Unit, Config: ur.Config}
				if f, ok := v["index"].(float64); ok {
					vi.Index = int64(f)
				}
				vi.Key, _ = v["key"].(string)
				vi.Msg, _ = v["msg"].(string)
				vi.Detail, _ = v["detail"].(map[string]interface{})
				viols = append(viols, vi)
			}
		}
		for _, q := range ur.Unit.Required {
			required[q] = true
		}
		for k := range ur.Keys {
			// keys of different units/configs are different cases
			allKeys[k^hashStr(ur.Unit.Job+"|"+ur.Config)&^1] = true
		}
		// every shard enumerates the same index sequence: if the shards disagree on its length, or the
		// executed cases do not add up, the enumeration was not deterministic (a harness bug)
		uExh := true
		for _, r := range ur.Results {
			if !r.Exhaustive {
				uExh = false
			}
		}
		for _, r := range ur.Results {
			if uExh && (r.Cases != uCases) {
				st.infraErr = append(st.infraErr, fmt.Sprintf("%s[%s]: shards disagree on the number of enumerated cases (%d vs %d)", ur.Unit.Job, ur.Config, r.Cases, uCases))
			}
		}
		if uExh && uEval != uCases {
			st.infraErr = append(st.infraErr, fmt.Sprintf("%s[%s]: executed cases %d != enumerated cases %d", ur.Unit.Job, ur.Config, uEval, uCases))
		}
		evaluated += uEval
		transitions += uTrans
		cases += uCases
		unitSummaries = append(unitSummaries, map[string]interface{}{
			"package": modPath + "/" + ur.Unit.Pkg, "job": ur.Unit.Job, "config": ur.Config,
			"cases_enumerated": uCases, "cases_executed": uEval, "impl_calls_compared": uTrans, "outcome_classes": uClasses,
		})
	}
	viols = append(viols, st.extraV...)
	if len(st.infraErr) > 0 {
		for _, e := range st.infraErr {
			fmt.Println("HARNESS-ERROR", e)
		}
		return 2
	}
	// vacuity guard
	var missing []string
	for q := range required {
		if classes[q] == 0 {
			missing = append(missing, q)
		}
	}
	sort.Strings(missing)
	distinct, nontrivial := 0, 0
	for k := range allKeys {
		distinct++
		if k&1 == 1 {
			nontrivial++
		}
	}
	// classify violations
	findings := loadFindings()
	sort.SliceStable(viols, func(i, j int) bool { return viols[i].Index < viols[j].Index })
	seenKey := map[string]bool{}
	var newV []violation
	knownHit := map[string]int{}
	for _, v := range viols {
		if f := matchFinding(findings, spec.ID, v.Key); f != nil {
			knownHit[f.Text]++
			continue
		}
		if seenKey[v.Key] {
			continue
		}
		seenKey[v.Key] = true
		newV = append(newV, v)
	}
	rc := 0
	for t, n := range knownHit {
		fmt.Printf("KNOWN-FINDING: %s (%d cases)\n", t, n)
	}
	// confirm and write replay files (at most 8 distinct keys)
	os.MkdirAll(filepath.Join(verifDir, "replays", spec.ID), 0755)
	reported := 0
	for _, v := range newV {
		if reported >= 8 {
			break
		}
		if v.Index >= 0 && v.Unit.Job != "" && !v.Unit.Race {
			// (reports of the Go race detector are never false positives but depend on real timing: they
			// are reported as observed, with the detector's own report as the witness)
			ok, n := st.confirm(v)
			if !ok {
				fmt.Printf("NONDETERMINISTIC property=%s key=%s reproduced %d/5 - not reported as a violation\n", spec.ID, v.Key, n)
				if rc == 0 {
					rc = 2
				}
				continue
			}
		}
		path := st.writeReplay(v)
		if _, ok := st.historyDep[v.Key+v.Config+v.Unit.Job]; ok {
			v.Msg += " [history-dependent: reproduced 0/5 alone, 3/3 after the preceding cases of its shard in the same process]"
		}
		fmt.Printf("VIOLATION property=%s replay=%s\n  key=%s\n  %s\n", spec.ID, path, v.Key, v.Msg)
		reported++
		rc = 1
	}
	if len(missing) > 0 && rc == 0 {
		fmt.Printf("HARNESS-ERROR vacuity guard: outcome classes never produced: %v\n", missing)
		rc = 2
	}
	wall := time.Since(st.start).Seconds()
	var cfgs []string
	for c := range cfgSet {
		cfgs = append(cfgs, c)
	}
	sort.Strings(cfgs)
	if len(samples) == 0 {
		samples = append(samples, "no sample recorded")
	}
	ev := map[string]interface{}{
		"property_id": spec.ID,
		"tier":        st.tier,
		"seed":        st.seed,
		"level":       "model_checking",
		"wall_s":      wall,
		"violations":  len(newV),
		"assumptions": spec.Assume,
		"coverage": map[string]interface{}{
			"states":                        max1(distinct),
			"transitions":                   max1(int(transitions)),
			"traces_validated_against_impl": evaluated,
			"evaluations":                   evaluated,
			"distinct_nontrivial":           nontrivial,
			"rule":                          spec.Rule,
			"samples":                       samples,
			"exhaustive":                    exhaustive,
			"cases_enumerated":              cases,
			"outcome_classes":               classes,
			"counters":                      extra,
			"configs":                       cfgs,
			"units":                         unitSummaries,
			"notes":                         notes,
			"known_findings_hit":            knownHit,
		},
	}
	b, _ := json.MarshalIndent(ev, "", " ")
	os.MkdirAll(filepath.Join(verifDir, "evidence"), 0755)
	if err := ioutil.WriteFile(filepath.Join(verifDir, "evidence", spec.ID+".json"), b, 0644); err != nil {
		fmt.Fprintln(os.Stderr, err)
		return 2
	}
	fmt.Printf("%s tier=%s configs=%v cases=%d executed=%d impl_calls=%d distinct=%d nontrivial=%d classes=%d exhaustive=%v violations=%d wall=%.1fs\n",
		spec.ID, st.tier, cfgs, cases, evaluated, transitions, distinct, nontrivial, len(classes), exhaustive, len(newV), wall)
	return rc
}

func contains(a []string, s string) bool {
	for _, x := range a {
		if x == s {
			return true
		}
	}
	return false
}

func max1(n int) int {
	if n < 1 {
		return 1
	}
	return n
}

func hashStr(s string) uint64 {
	h := uint64(14695981039346656037)
	for i := 0; i < len(s); i++ {
		h ^= uint64(s[i])
		h *= 1099511628211
	}
	return h
}

// confirm re-executes the single case 5 times in fresh processes.
func (st *runState) confirm(v violation) (bool, int) {
	bin := ""
	for _, ur := range st.runs {
		if ur.Unit.Job == v.Unit.Job && ur.Config == v.Config && ur.Unit.Pkg == v.Unit.Pkg {
			bin = ur.Bin
		}
	}
	if bin == "" {
		return true, 5
	}
	n := 0
	for i := 0; i < 5; i++ {
		out := filepath.Join(st.work, fmt.Sprintf("confirm_%d.json", i))
		res, _, err := runWorker(bin, v.Unit, v.Config, st.tier, st.seed, 0, 1, v.Index, 0, out)
		if err != nil {
			continue
		}
		for _, rv := range res.Violations {
			if k, _ := rv["key"].(string); k == v.Key {
				n++
				break
			}
		}
	}
	if strings.Contains(v.Key, " parallel ") && n > 0 {
		// sections that use real parallelism (two goroutines computing at the same time): the outcome
		// depends on timing; on a tree where the property holds they cannot fail at all, so a failure that
		// was observed in the run and again in at least one of five re-runs is reported
		return true, n
	}
	if n == 5 || n > 0 {
		return n == 5, n
	}
	// Not reproduced by the case alone: the observation may depend on the cases the same worker
	// process ran before it (a cache, a memo, a lazily built table - state the library keeps between
	// calls). Replay the shard's own prefix up to the case, three times; identical every time means the
	// violation is deterministic given that call history, and it is reported as such.
	shards := 1
	for _, ur := range st.runs {
		if ur.Unit.Job == v.Unit.Job && ur.Config == v.Config && ur.Unit.Pkg == v.Unit.Pkg {
			shards = len(ur.Results)
		}
	}
	h := 0
	for i := 0; i < 3; i++ {
		out := filepath.Join(st.work, fmt.Sprintf("confirm_hist_%d.json", i))
		res, _, err := runWorker(bin, v.Unit, v.Config, st.tier, st.seed, int(v.Index%int64(shards)), shards, -(v.Index + 2), 0, out)
		if err != nil {
			continue
		}
		for _, rv := range res.Violations {
			if k, _ := rv["key"].(string); k == v.Key {
				h++
				break
			}
		}
	}
	if h == 3 {
		st.historyDep[v.Key+v.Config+v.Unit.Job] = shards
		return true, 0
	}
	return false, 0
}

func (st *runState) writeReplay(v violation) string {
	rec := map[string]interface{}{
		"property": st.spec.ID, "package": v.Unit.Pkg, "job": v.Unit.Job, "config": v.Config, "instr": v.Unit.Instr,
		"params": v.Unit.Params, "race": v.Unit.Race,
		"tier": st.tier, "seed": st.seed, "index": v.Index, "key": v.Key, "msg": v.Msg, "detail": v.Detail,
	}
	if sh, ok := st.historyDep[v.Key+v.Config+v.Unit.Job]; ok {
		rec["history_shards"] = sh
		rec["msg"] = v.Msg + " [history-dependent: not reproduced by the case alone, reproduced 3/3 when the preceding cases of its shard run in the same process]"
	}
	b, _ := json.MarshalIndent(rec, "", " ")
	name := fmt.Sprintf("%016x.json", hashStr(v.Key+v.Config+v.Unit.Job))
	p := filepath.Join(verifDir, "replays", st.spec.ID, name)
	ioutil.WriteFile(p, b, 0644)
	return p
}

func cmdReplay(args []string) int {
	if len(args) != 1 {
		usage()
	}
	b, err := ioutil.ReadFile(args[0])
	if err != nil {
		fmt.Fprintln(os.Stderr, err)
		return 2
	}
	var rec struct {
		Property, Package, Job, Config, Instr, Params, Tier, Key, Msg string
		Race                                                          bool
		Seed, Index                                                   int64
		HistoryShards                                                 int `json:"history_shards"`
	}
	if err := json.Unmarshal(b, &rec); err != nil {
		fmt.Fprintln(os.Stderr, err)
		return 2
	}
	os.MkdirAll(filepath.Join(verifDir, ".work"), 0755)
	work, _ := ioutil.TempDir(filepath.Join(verifDir, ".work"), "replay_")
	defer os.RemoveAll(work)
	u := Unit{Pkg: rec.Package, Job: rec.Job, Instr: rec.Instr, Params: rec.Params, Race: rec.Race}
	if rec.Index < 0 {
		fmt.Println("this record came from a driver-side comparison; re-run the check instead: vcheck run", rec.Property)
		return 2
	}
	if strings.Contains(rec.Params, "expect=") {
		// cross-configuration record: recompute the reference digest from the current tree first
		ru := u
		ru.Params = ""
		rbin, err := buildUnit(work, ru, "default")
		if err != nil {
			fmt.Println("HARNESS-BUILD-FAILED", err)
			return 2
		}
		rout := filepath.Join(work, "replay_ref.json")
		if _, _, err := runWorker(rbin, ru, "default", rec.Tier, rec.Seed, 0, 1, rec.Index, 0, rout); err != nil {
			fmt.Println("HARNESS-ERROR", err)
			return 2
		}
		tb, _ := ioutil.ReadFile(rout + ".transcript")
		var idx int64
		var dig string
		if n, _ := fmt.Sscanf(string(tb), "%d %s", &idx, &dig); n != 2 {
			fmt.Println("HARNESS-ERROR no reference digest")
			return 2
		}
		u.Params = "expect=" + dig + ",key=" + rec.Key
	}
	bin, err := buildUnit(work, u, rec.Config)
	if err != nil {
		fmt.Println("HARNESS-BUILD-FAILED", err)
		return 2
	}
	shard, shards, only := 0, 1, rec.Index
	if rec.HistoryShards > 0 {
		// history-dependent record: the case together with the preceding cases of its shard
		shard, shards, only = int(rec.Index%int64(rec.HistoryShards)), rec.HistoryShards, -(rec.Index + 2)
	}
	res, _, err := runWorker(bin, u, rec.Config, rec.Tier, rec.Seed, shard, shards, only, 0, filepath.Join(work, "replay.json"))
	if err != nil {
		fmt.Println("HARNESS-ERROR", err)
		return 2
	}
	for _, v := range res.Violations {
		if k, _ := v["key"].(string); k == rec.Key {
			d, _ := json.MarshalIndent(v, "", " ")
			fmt.Printf("VIOLATION property=%s replay=%s\n%s\n", rec.Property, args[0], d)
			return 1
		}
	}
	fmt.Printf("case %d of %s/%s[%s] no longer violates %s (key %s)\n", rec.Index, rec.Package, rec.Job, rec.Config, rec.Property, rec.Key)
	return 0
}
