#!/bin/sh
# thorough_all.sh: runs every check's thorough tier in sequence (used with `vp run --with-repo`).
export VERIF_DIR=$(pwd)
[ -n "$VP_RUN_REPO" ] && export VERIF_REPO=$VP_RUN_REPO
./setup.sh >/dev/null 2>&1
for p in $(./bin/vcheck list); do
  s=$(date +%s); out=$(./bin/vcheck run $p --tier thorough 2>&1); rc=$?; e=$(date +%s)
  echo "== $p rc=$rc $((e-s))s"; echo "$out" | tail -4
done
